//! Finite enumerations and special layers that are not seeded op-list runs:
//! the C12 boot matrix, the C20 fallback table, C10 name strings, C16 real threads under shuttle.

use crate::checks::boot_matrix_cfgs;
use crate::ops::*;
use crate::prng::{mix, Rng};
use crate::run::RunOut;
use crate::world::{St, World};
use serde_json::json;
use snow::params::{CipherChoice, DHChoice, HashChoice};
use snow::resolvers::{CryptoResolver, FallbackResolver};
use snow::types::{Cipher, Dh, Hash, Random};
use std::collections::BTreeMap;

#[derive(Default)]
pub struct EnumOut {
    pub evaluations: u64,
    pub distinct: u64,
    pub viol: Vec<(Violation, Option<RunOut>)>,
    pub samples: Vec<serde_json::Value>,
    pub probes: BTreeMap<&'static str, u64>,
    pub summary: Vec<serde_json::Value>,
    pub harness_errors: Vec<String>,
    pub exhaustive: bool,
    pub exhaustive_parts: Vec<String>,
}

pub fn run_enumeration(which: &str, id: &str, thorough: bool, seed: u64, out: &mut EnumOut) {
    match which {
        "boot-matrix" => boot_matrix(out),
        "fallback-table" => fallback_table(out),
        "names" => names(seed, thorough, out),
        "real-rng" => real_rng(out),
        "stateless-threads" => {
            stateless_threads(seed, thorough, out);
            stress_threads(seed, thorough, out);
            // (the Miri layer builds its own crate against /repo: once is enough, the second
            // build of the simulator does not repeat it)
            if (thorough && cfg!(feature = "hooks")) || std::env::var("VERIF_MIRI").is_ok() {
                miri_threads(seed, out);
            }
        },
        _ => out.harness_errors.push(format!("unknown enumeration {which} for {id}")),
    }
}

fn boot_matrix(out: &mut EnumOut) {
    let cfgs = boot_matrix_cfgs();
    let mut strata = std::collections::BTreeSet::new();
    let (mut ok, mut err) = (0u64, 0u64);
    for (i, cfg) in cfgs.iter().enumerate() {
        let mut w = World::new(cfg.clone());
        // key generation under the same resolver (faults included) and name
        if cfg.nodes[0].deny.is_some() || i % 4 == 0 || crate::refnoise::Proto::parse(&cfg.nodes[0].name).is_err() {
            w.apply(0, &crate::ops::Op::Keygen { node: 0 });
        }
        w.finish();
        if w.nodes[0].build_result == "ok" {
            ok += 1;
        } else {
            err += 1;
        }
        strata.insert(cfg.stratum.clone());
        for v in w.viol.iter() {
            let r = RunOut {
                idx: i as u64,
                seed: 0,
                cfg: cfg.clone(),
                ops: vec![],
                mode: "plain".into(),
                viol: w.viol.clone(),
                stats: Default::default(),
                trace: 0,
                abstract_trace: 0,
                faults: 0,
            };
            out.viol.push((v.clone(), Some(r)));
        }
        if i % 2500 == 7 {
            out.samples.push(json!({"boot": cfg.stratum, "name": cfg.nodes[0].name, "initiator": cfg.nodes[0].initiator, "local_static": cfg.nodes[0].s_priv.is_some(), "remote_static": cfg.nodes[0].rs_pub.is_some(), "deny": format!("{:?}", cfg.nodes[0].deny), "result": w.nodes[0].build_result}));
        }
    }
    out.evaluations += cfgs.len() as u64;
    out.distinct += strata.len() as u64;
    out.exhaustive = true;
    out.exhaustive_parts.push("boot matrix (pattern x role x key subset x psk modifier x denied primitive)".into());
    out.summary.push(json!({"enumeration": "boot-matrix", "boots": cfgs.len(), "built_ok": ok, "rejected": err, "distinct_configurations": strata.len(), "exhaustive": true}));
}

// ---- C20 fallback table ----------------------------------------------------------------------

struct StubRng(u8);
impl rand_core::RngCore for StubRng {
    fn next_u32(&mut self) -> u32 {
        u32::from_le_bytes([self.0; 4])
    }
    fn next_u64(&mut self) -> u64 {
        u64::from_le_bytes([self.0; 8])
    }
    fn fill_bytes(&mut self, d: &mut [u8]) {
        d.fill(self.0)
    }
    fn try_fill_bytes(&mut self, d: &mut [u8]) -> Result<(), rand_core::Error> {
        d.fill(self.0);
        Ok(())
    }
}
impl rand_core::CryptoRng for StubRng {}
impl Random for StubRng {}

struct StubDh(&'static str);
impl Dh for StubDh {
    fn name(&self) -> &'static str {
        self.0
    }
    fn pub_len(&self) -> usize {
        32
    }
    fn priv_len(&self) -> usize {
        32
    }
    fn set(&mut self, _: &[u8]) {}
    fn generate(&mut self, _: &mut dyn Random) {}
    fn pubkey(&self) -> &[u8] {
        &[]
    }
    fn privkey(&self) -> &[u8] {
        &[]
    }
    fn dh(&self, _: &[u8], _: &mut [u8]) -> Result<(), snow::Error> {
        Ok(())
    }
}
struct StubHash(&'static str);
impl Hash for StubHash {
    fn name(&self) -> &'static str {
        self.0
    }
    fn block_len(&self) -> usize {
        64
    }
    fn hash_len(&self) -> usize {
        32
    }
    fn reset(&mut self) {}
    fn input(&mut self, _: &[u8]) {}
    fn result(&mut self, _: &mut [u8]) {}
}
struct StubCipher(&'static str);
impl Cipher for StubCipher {
    fn name(&self) -> &'static str {
        self.0
    }
    fn set(&mut self, _: &[u8; 32]) {}
    fn encrypt(&self, _: u64, _: &[u8], _: &[u8], _: &mut [u8]) -> usize {
        0
    }
    fn decrypt(&self, _: u64, _: &[u8], _: &[u8], _: &mut [u8]) -> Result<usize, snow::Error> {
        Ok(0)
    }
}

/// A resolver that has (or lacks) each primitive kind independently; everything it returns is
/// tagged with the resolver's identity.
struct TaggedResolver {
    tag: &'static str,
    rng_byte: u8,
    has: [bool; 4],
    /// per-choice availability masks (bit i = i-th choice of the kind); None = all choices
    choice_mask: Option<[u8; 3]>,
}

fn dh_index(c: &DHChoice) -> u8 {
    match c {
        DHChoice::Curve25519 => 0,
        DHChoice::Curve448 => 1,
        DHChoice::P256 => 2,
    }
}
fn hash_index(c: &HashChoice) -> u8 {
    match c {
        HashChoice::SHA256 => 0,
        HashChoice::SHA512 => 1,
        HashChoice::Blake2s => 2,
        HashChoice::Blake2b => 3,
    }
}
fn cipher_index(c: &CipherChoice) -> u8 {
    match c {
        CipherChoice::ChaChaPoly => 0,
        CipherChoice::AESGCM => 1,
        CipherChoice::XChaChaPoly => 2,
    }
}
impl CryptoResolver for TaggedResolver {
    fn resolve_rng(&self) -> Option<Box<dyn Random>> {
        self.has[0].then(|| Box::new(StubRng(self.rng_byte)) as Box<dyn Random>)
    }
    fn resolve_dh(&self, c: &DHChoice) -> Option<Box<dyn Dh>> {
        let ok = self.has[1] && self.choice_mask.map_or(true, |m| m[0] & (1 << dh_index(c)) != 0);
        ok.then(|| Box::new(StubDh(self.tag)) as Box<dyn Dh>)
    }
    fn resolve_hash(&self, c: &HashChoice) -> Option<Box<dyn Hash>> {
        let ok = self.has[2] && self.choice_mask.map_or(true, |m| m[1] & (1 << hash_index(c)) != 0);
        ok.then(|| Box::new(StubHash(self.tag)) as Box<dyn Hash>)
    }
    fn resolve_cipher(&self, c: &CipherChoice) -> Option<Box<dyn Cipher>> {
        let ok = self.has[3] && self.choice_mask.map_or(true, |m| m[2] & (1 << cipher_index(c)) != 0);
        ok.then(|| Box::new(StubCipher(self.tag)) as Box<dyn Cipher>)
    }
}

fn fallback_table(out: &mut EnumOut) {
    let dhs = [DHChoice::Curve25519, DHChoice::Curve448, DHChoice::P256];
    let hashes = [HashChoice::SHA256, HashChoice::SHA512, HashChoice::Blake2s, HashChoice::Blake2b];
    let ciphers = [CipherChoice::ChaChaPoly, CipherChoice::AESGCM, CipherChoice::XChaChaPoly];
    let mut cases = 0u64;
    let push = |out: &mut EnumOut, kind: &str, choice: String, a: bool, b: bool, got: Option<&'static str>| {
        let want = if a { Some("A") } else if b { Some("B") } else { None };
        if got != want {
            out.viol.push((
                Violation {
                    prop: "C20".into(),
                    clause: "fallback-resolution".into(),
                    site: format!("{kind}/preferred={a}/fallback={b}"),
                    detail: format!("choice {choice}: expected provider {want:?}, got {got:?}"),
                    op_index: 0,
                },
                None,
            ));
        }
    };
    // all 16 availability vectors for A x all 16 for B cover every per-kind (a, b) combination
    // independently of the other kinds
    for amask in 0..16u8 {
        for bmask in 0..16u8 {
            let has = |m: u8| [m & 1 != 0, m & 2 != 0, m & 4 != 0, m & 8 != 0];
            let (ha, hb) = (has(amask), has(bmask));
            let fr = FallbackResolver::new(
                Box::new(TaggedResolver { tag: "A", rng_byte: 0xAA, has: ha, choice_mask: None }),
                Box::new(TaggedResolver { tag: "B", rng_byte: 0xBB, has: hb, choice_mask: None }),
            );
            let got = fr.resolve_rng().map(|mut r| {
                let mut b = [0u8; 4];
                r.fill_bytes(&mut b);
                if b[0] == 0xAA {
                    "A"
                } else {
                    "B"
                }
            });
            push(out, "rng", "-".into(), ha[0], hb[0], got);
            cases += 1;
            for c in &dhs {
                let got = fr.resolve_dh(c).map(|d| d.name());
                push(out, "dh", format!("{c:?}"), ha[1], hb[1], got);
                cases += 1;
            }
            for c in &hashes {
                let got = fr.resolve_hash(c).map(|d| d.name());
                push(out, "hash", format!("{c:?}"), ha[2], hb[2], got);
                cases += 1;
            }
            for c in &ciphers {
                let got = fr.resolve_cipher(c).map(|d| d.name());
                push(out, "cipher", format!("{c:?}"), ha[3], hb[3], got);
                cases += 1;
            }
            // the same instance asked again, in the opposite order of kinds: an answer must not
            // depend on what was asked (or found) before
            for c in hashes.iter().rev() {
                let got = fr.resolve_hash(c).map(|d| d.name());
                push(out, "hash/second-round", format!("{c:?}"), ha[2], hb[2], got);
                cases += 1;
            }
            for c in dhs.iter().rev() {
                let got = fr.resolve_dh(c).map(|d| d.name());
                push(out, "dh/second-round", format!("{c:?}"), ha[1], hb[1], got);
                cases += 1;
            }
            let got = fr.resolve_rng().map(|mut r| {
                let mut b = [0u8; 4];
                r.fill_bytes(&mut b);
                if b[0] == 0xAA {
                    "A"
                } else {
                    "B"
                }
            });
            push(out, "rng/second-round", "-".into(), ha[0], hb[0], got);
            for c in ciphers.iter().rev() {
                let got = fr.resolve_cipher(c).map(|d| d.name());
                push(out, "cipher/second-round", format!("{c:?}"), ha[3], hb[3], got);
                cases += 1;
            }
            cases += 1;
        }
    }
    // per-choice availability on ONE resolver instance, every query order of the kind's choices
    // forwards and backwards: a member that lacks one choice must still be asked for the others
    for kind in 0..3usize {
        let nchoices = [3u8, 4, 3][kind];
        for amask in 0..(1u8 << nchoices) {
            for bmask in 0..(1u8 << nchoices) {
                for reverse in [false, true] {
                    let mut ma = [0xFFu8; 3];
                    let mut mb = [0xFFu8; 3];
                    ma[kind] = amask;
                    mb[kind] = bmask;
                    let fr = FallbackResolver::new(
                        Box::new(TaggedResolver { tag: "A", rng_byte: 0xAA, has: [true; 4], choice_mask: Some(ma) }),
                        Box::new(TaggedResolver { tag: "B", rng_byte: 0xBB, has: [true; 4], choice_mask: Some(mb) }),
                    );
                    let order: Vec<u8> = if reverse { (0..nchoices).rev().collect() } else { (0..nchoices).collect() };
                    for ci in order {
                        let got = match kind {
                            0 => fr.resolve_dh(&dhs[ci as usize]).map(|d| d.name()),
                            1 => fr.resolve_hash(&hashes[ci as usize]).map(|d| d.name()),
                            _ => fr.resolve_cipher(&ciphers[ci as usize]).map(|d| d.name()),
                        };
                        let (a, b) = (amask & (1 << ci) != 0, bmask & (1 << ci) != 0);
                        push(out, ["dh", "hash", "cipher"][kind], format!("choice#{ci} (same instance, {} order)", if reverse { "reverse" } else { "forward" }), a, b, got);
                        cases += 1;
                    }
                }
            }
        }
    }
    // the real resolvers: ring has no DH, so alone it cannot build; with a default fallback it can
    let ring_alone = snow::Builder::with_resolver("Noise_NN_25519_ChaChaPoly_SHA256".parse().unwrap(), Box::new(snow::resolvers::RingResolver)).build_initiator();
    cases += 1;
    match ring_alone {
        Err(snow::Error::Init(snow::error::InitStage::GetDhImpl)) => {},
        other => out.viol.push((
            Violation { prop: "C20".into(), clause: "ring-alone-builds".into(), site: "ring-alone".into(), detail: format!("{:?}", other.map(|_| "built")), op_index: 0 },
            None,
        )),
    }
    for (first_ring, name) in [(true, "Noise_XX_25519_AESGCM_SHA512"), (false, "Noise_XX_25519_AESGCM_SHA512"), (true, "Noise_NN_P256_XChaChaPoly_BLAKE2s")] {
        let r: Box<dyn CryptoResolver + Send> = if first_ring {
            Box::new(FallbackResolver::new(Box::new(snow::resolvers::RingResolver), Box::new(snow::resolvers::DefaultResolver)))
        } else {
            Box::new(FallbackResolver::new(Box::new(snow::resolvers::DefaultResolver), Box::new(snow::resolvers::RingResolver)))
        };
        cases += 1;
        let b = snow::Builder::with_resolver(name.parse().unwrap(), r).local_private_key(&[1u8; 32]).and_then(|b| b.build_initiator());
        if b.is_err() {
            out.viol.push((
                Violation { prop: "C20".into(), clause: "fallback-combination-cannot-build".into(), site: format!("ring-first={first_ring}"), detail: name.into(), op_index: 0 },
                None,
            ));
        }
    }
    out.evaluations += cases;
    out.distinct += 4 * 4 + 4; // (kind x 4 availability cases) + real-resolver cases
    out.exhaustive_parts.push("fallback table (primitive kind x choice x availability in preferred/fallback)".into());
    out.samples.push(json!({"fallback_case": {"kind": "cipher", "choice": "AESGCM", "preferred_has": false, "fallback_has": true, "expected_provider": "B"}}));
    out.summary.push(json!({"enumeration": "fallback-table", "cases": cases, "exhaustive": true}));
}

// ---- C10 names -------------------------------------------------------------------------------

/// the P-256 base point, uncompressed (a valid remote static key for build attempts)
const P256_BASE: [u8; 65] = [
    0x04, 0x6b, 0x17, 0xd1, 0xf2, 0xe1, 0x2c, 0x42, 0x47, 0xf8, 0xbc, 0xe6, 0xe5, 0x63, 0xa4, 0x40, 0xf2, 0x77, 0x03, 0x7d, 0x81, 0x2d, 0xeb, 0x33, 0xa0, 0xf4, 0xa1, 0x39, 0x45, 0xd8, 0x98, 0xc2, 0x96,
    0x4f, 0xe3, 0x42, 0xe2, 0xfe, 0x1a, 0x7f, 0x9b, 0x8e, 0xe7, 0xeb, 0x4a, 0x7c, 0x0f, 0x9e, 0x16, 0x2b, 0xce, 0x33, 0x57, 0x6b, 0x31, 0x5e, 0xce, 0xcb, 0xb6, 0x40, 0x68, 0x37, 0xbf, 0x51, 0xf5,
];

fn names(seed: u64, thorough: bool, out: &mut EnumOut) {
    // plain seeded input generation (the simulator adds nothing here; labelled as such)
    let n = if thorough { 400_000 } else { 40_000 };
    let mut rng = Rng::new(mix(seed, 0x4A3E5));
    let bases = crate::refnoise::pattern_names();
    let mut distinct = std::collections::BTreeSet::new();
    let mut panics = 0;
    // complete part: every pattern with 1-3 psk modifiers of which one (at every list position)
    // is out of range for the pattern; whatever parses is also built, in both roles
    let mut listed: Vec<String> = vec![];
    for base in bases.iter() {
        let nmsg = crate::refnoise::Proto::parse(&format!("Noise_{base}_25519_ChaChaPoly_SHA256")).map(|p| p.msgs.len()).unwrap_or(1);
        for k in 1..=3usize {
            for badpos in 0..k {
                for bad in [nmsg + 1, 9, 10] {
                    let mut next_valid = 0;
                    let mods: Vec<String> = (0..k)
                        .map(|p| {
                            if p == badpos {
                                format!("psk{bad}")
                            } else {
                                next_valid += 1;
                                format!("psk{}", next_valid - 1)
                            }
                        })
                        .collect();
                    listed.push(format!("Noise_{base}{}_25519_ChaChaPoly_SHA256", mods.join("+")));
                }
            }
        }
    }
    let n_listed = listed.len();
    for i in 0..n + n_listed {
        let (name, _) = crate::scen::gen_name(&mut rng, i as u64, None);
        let mut s = name.into_bytes();
        let kind = if i >= n { 12 } else { rng.below(12) };
        match kind {
            12 => s = listed[i - n].clone().into_bytes(),
            10 | 11 => {
                // 1-3 psk modifiers with indices in and out of range
                let base = bases[rng.usize_below(38)];
                let k = rng.range(1, 3);
                let mods: Vec<String> = (0..k).map(|_| format!("psk{}", *rng.pick(&[0u32, 1, 2, 3, 4, 5, 9, 10, 12, 99]))).collect();
                s = format!("Noise_{base}{}_25519_ChaChaPoly_SHA256", mods.join("+")).into_bytes();
            },
            0 => {},
            1 => {
                if !s.is_empty() {
                    let p = rng.usize_below(s.len());
                    s.remove(p);
                }
            },
            2 => {
                let p = rng.usize_below(s.len() + 1);
                s.insert(p, *rng.pick(b"_+pskNXKI0123456789\xc3\xa9\xff "));
            },
            3 => {
                if !s.is_empty() {
                    let p = rng.usize_below(s.len());
                    s[p] = rng.below(256) as u8;
                }
            },
            4 => {
                let extra = format!("psk{}", rng.below(100_000));
                let p = s.iter().position(|c| *c == b'_').map(|p| p + 1 + bases[rng.usize_below(38)].len()).unwrap_or(0).min(s.len());
                for (k, b) in extra.bytes().enumerate() {
                    s.insert((p + k).min(s.len()), b);
                }
            },
            5 => s = "Noise_é".as_bytes().to_vec(),
            6 => {
                let l = rng.usize_below(40);
                s = rng.bytes(l)
            },
            7 => s.extend(std::iter::repeat(b'A').take(rng.usize_below(5000))),
            8 => s = format!("Noise_{}{}_25519_ChaChaPoly_SHA256", bases[rng.usize_below(38)], "é+".repeat(rng.usize_below(3))).into_bytes(),
            _ => s = Vec::new(),
        }
        let text = String::from_utf8_lossy(&s).to_string();
        let r = std::panic::catch_unwind(|| match text.parse::<snow::params::NoiseParams>() {
            Ok(_) => {
                // a name that parses must also be buildable or refused - never panic (both roles,
                // all keys and all ten PSK slots supplied)
                let (k, psk) = ([7u8; 32], [9u8; 32]);
                for initiator in [true, false] {
                    let mut b = snow::Builder::new(text.parse().unwrap());
                    for slot in 0..10u8 {
                        b = match b.psk(slot, &psk) {
                            Ok(b) => b,
                            Err(_) => return true,
                        };
                    }
                    let dhlen = if text.contains("_P256_") { 65 } else { 32 };
                    let peer = if dhlen == 65 { P256_BASE.to_vec() } else { vec![9u8; 32] };
                    let b = b.local_private_key(&k).and_then(|b| b.remote_public_key(&peer));
                    if let Ok(b) = b {
                        let _ = if initiator { b.build_initiator() } else { b.build_responder() };
                    }
                }
                true
            },
            Err(_) => false,
        });
        match r {
            Ok(ok) => {
                distinct.insert((kind, ok, text.len().min(80)));
            },
            Err(_) => {
                panics += 1;
                out.viol.push((
                    Violation { prop: "C10".into(), clause: "panic".into(), site: format!("parse-name/kind{kind}"), detail: format!("{text:?}"), op_index: 0 },
                    None,
                ));
            },
        }
        if i < 3 {
            out.samples.push(json!({"name_string": text}));
        }
    }
    out.evaluations += (n + n_listed) as u64;
    out.distinct += distinct.len() as u64;
    out.summary.push(json!({"enumeration": "names (seeded input generation, not simulation): parse; whatever parses is built in both roles with all keys and PSK slots supplied", "strings": n + n_listed, "listed_multi_psk_names": n_listed, "panics": panics}));
}

// ---- C16 real threads under shuttle ----------------------------------------------------------

#[derive(Clone)]
enum TOp {
    Write { nonce: u64, payload: Vec<u8>, expect: Vec<u8> },
    Read { nonce: u64, msg: Vec<u8>, expect: Option<Vec<u8>> },
}

fn stateless_pair_named(seed: u64, name: &str, backend: crate::seam::Backend) -> Option<(snow::StatelessTransportState, snow::StatelessTransportState, crate::refnoise::RefTransport, crate::refnoise::RefTransport)> {
    let mut rng = crate::run::gen_rng(seed);
    let opts = crate::scen::CfgOpts { force_name: Some(name.to_string()), force_backend: Some(backend), ..Default::default() };
    let cfg = crate::scen::gen_cfg(&mut rng, 0, "stateless-stress", &opts);
    let mut w = World::new(cfg);
    {
        let mut d = crate::scen::Driver::new(&mut w, &mut rng);
        let p = crate::scen::Profile { stateless: 1000, ..Default::default() };
        if !d.handshake(0, &p) {
            return None;
        }
        d.convert(0, &p);
    }
    let mut nodes = std::mem::take(&mut w.nodes);
    let b = nodes.pop()?;
    let a = nodes.pop()?;
    match (a.st, b.st, a.trm, b.trm) {
        (St::Sl(x), St::Sl(y), Some(ta), Some(tb)) => Some((*x, *y, ta, tb)),
        _ => None,
    }
}

/// Supplementary layer (NOT deterministic simulation): real OS threads released together on one
/// shared stateless session right after a key change, results compared with the model. The
/// scheduler is the operating system's, so a failure cannot be replayed exactly; it is still a
/// genuine violation because every expected value is a pure function computed by the model. It
/// exists because neither shuttle (no scheduling point inside a call) nor Miri (cannot execute
/// ring's C/asm) can reach a race inside a backend wrapper.
fn stress_threads(seed: u64, thorough: bool, out: &mut EnumOut) {
    use std::sync::atomic::{AtomicUsize, Ordering};
    const WORKERS: usize = 4;
    const CALLS: usize = 4;
    let rounds = if thorough { 16_000 } else { 2_000 };
    let mut total = 0u64;
    // every cipher on every backend that has it
    for (name, backend) in [
        ("Noise_NN_25519_AESGCM_SHA256", crate::seam::Backend::RingFirst),
        ("Noise_NN_25519_ChaChaPoly_SHA256", crate::seam::Backend::RingFirst),
        ("Noise_NN_25519_AESGCM_BLAKE2s", crate::seam::Backend::Default),
        ("Noise_NN_25519_ChaChaPoly_BLAKE2s", crate::seam::Backend::Default),
        ("Noise_NN_25519_XChaChaPoly_SHA512", crate::seam::Backend::Default),
    ] {
        let (mut sa, mut sb, mut ta, _tb) = match stateless_pair_named(mix(seed, 0x57E55), name, backend) {
            Some(x) => x,
            None => {
                out.harness_errors.push(format!("stress: cannot set up {name}"));
                continue;
            },
        };
        let mut bad: Option<String> = None;
        let rounds = if backend == crate::seam::Backend::RingFirst { rounds * 2 } else { rounds };
        // one job = one call with its expected result, all computed before the threads start
        enum Job {
            Write { nonce: u64, payload: Vec<u8>, expect: Vec<u8> },
            Read { nonce: u64, msg: Vec<u8>, expect: Vec<u8>, outlen: usize },
        }
        for round in 0..rounds {
            // key change on both ends (every 3rd round none), then the first uses of the new key
            // happen concurrently: writes on one end, reads of distinct genuine messages on the other
            let d = ta.send_dir();
            if round % 3 != 2 {
                sa.rekey_outgoing();
                sb.rekey_incoming();
                ta.rekey_dir(d);
            }
            let jobs: Vec<Vec<Job>> = (0..WORKERS)
                .map(|t| {
                    (0..CALLS)
                        .map(|j| {
                            let nonce = round as u64 * 64 + (t * 8 + j) as u64;
                            let plen = [24usize, 600, 1040, 0, 4081][(t + j + round as usize) % 5];
                            let payload = vec![(t * 16 + j + 1) as u8; plen];
                            let ct = ta.encrypt_at(d, nonce, &payload);
                            if (t + j + round as usize) % 2 == 0 {
                                Job::Write { nonce, payload, expect: ct }
                            } else {
                                // exact fit, 1..15 bytes of slack (ring's detached path), message size, ample
                                let outlen = plen + [0usize, 1, 15, 16, 64][(round as usize + j) % 5];
                                Job::Read { nonce, msg: ct, expect: payload, outlen }
                            }
                        })
                        .collect()
                })
                .collect();
            let arrived = AtomicUsize::new(0);
            let (wa, rb) = (&sa, &sb);
            let results: Vec<Option<String>> = std::thread::scope(|sc| {
                let hs: Vec<_> = jobs
                    .iter()
                    .map(|mine| {
                        let arrived = &arrived;
                        sc.spawn(move || {
                            let mut wbuf = vec![0u8; 4200];
                            let mut rbuf = vec![0u8; 4200];
                            // spin rendezvous: all workers leave within nanoseconds of each other
                            arrived.fetch_add(1, Ordering::AcqRel);
                            while arrived.load(Ordering::Acquire) < WORKERS {
                                std::hint::spin_loop();
                            }
                            for job in mine {
                                match job {
                                    Job::Write { nonce, payload, expect } => match wa.write_message(*nonce, payload, &mut wbuf) {
                                        Ok(n) if wbuf[..n] == expect[..] => {},
                                        Ok(_) => return Some(format!("write nonce={nonce} len={}: bytes differ from the pure function of (key, nonce, payload)", payload.len())),
                                        Err(e) => return Some(format!("write nonce={nonce} len={}: {e:?}", payload.len())),
                                    },
                                    Job::Read { nonce, msg, expect, outlen } => match rb.read_message(*nonce, msg, &mut rbuf[..*outlen]) {
                                        Ok(n) if rbuf[..n] == expect[..] => {},
                                        Ok(_) => return Some(format!("read nonce={nonce} len={} out={outlen}: wrong payload", msg.len())),
                                        Err(e) => return Some(format!("read nonce={nonce} len={} out={outlen}: genuine message refused: {e:?}", msg.len())),
                                    },
                                }
                            }
                            None
                        })
                    })
                    .collect();
                hs.into_iter().map(|h| h.join().unwrap_or_else(|_| Some("panic in a concurrent call".into()))).collect()
            });
            total += (WORKERS * CALLS) as u64;
            if let Some(r) = results.into_iter().flatten().next() {
                bad = Some(format!("{name} ({backend:?}) round {round}: {r}"));
                break;
            }
        }
        if let Some(b) = bad {
            out.viol.push((
                Violation { prop: "C16".into(), clause: "os-threads-result-differs".into(), site: "os-threads/uncontrolled-scheduler".into(), detail: b, op_index: 0 },
                None,
            ));
        }
    }
    out.evaluations += total;
    *out.probes.entry("os-thread-stress-calls").or_insert(0) += total;
    out.summary.push(json!({"enumeration": "stateless OS-thread stress: concurrent writes on one end and reads of distinct genuine messages on the other (exact-fit, slack and ample buffers) right after key changes; 3 ciphers x backends (supplementary, uncontrolled scheduler, not replayable; see DESIGN 12)", "calls": total}));
}

fn stateless_pair(seed: u64, idx: u64) -> Option<(snow::StatelessTransportState, snow::StatelessTransportState, crate::refnoise::RefTransport, crate::refnoise::RefTransport, String)> {
    let mut rng = crate::run::gen_rng(seed);
    let opts = crate::scen::CfgOpts::default();
    let mut cfg = crate::scen::gen_cfg(&mut rng, idx, "stateless-threads", &opts);
    // interactive patterns only (both directions)
    if crate::refnoise::Proto::parse(&cfg.nodes[0].name).ok()?.is_oneway() {
        cfg = crate::scen::gen_cfg(&mut rng, idx + 3, "stateless-threads", &opts);
        if crate::refnoise::Proto::parse(&cfg.nodes[0].name).ok()?.is_oneway() {
            return None;
        }
    }
    let name = cfg.nodes[0].name.clone();
    let mut w = World::new(cfg);
    {
        let mut d = crate::scen::Driver::new(&mut w, &mut rng);
        let p = crate::scen::Profile { stateless: 1000, ..Default::default() };
        if !d.handshake(0, &p) {
            return None;
        }
        d.convert(0, &p);
    }
    let mut nodes = std::mem::take(&mut w.nodes);
    let b = nodes.pop()?;
    let a = nodes.pop()?;
    match (a.st, b.st, a.trm, b.trm) {
        (St::Sl(x), St::Sl(y), Some(ta), Some(tb)) => Some((*x, *y, ta, tb, name)),
        _ => None,
    }
}

fn stateless_threads(seed: u64, thorough: bool, out: &mut EnumOut) {
    use shuttle::scheduler::{PctScheduler, RandomScheduler};
    let configs = if thorough { 60 } else { 12 };
    let iters = if thorough { 400 } else { 100 };
    let mut total_schedules = 0u64;
    let dir = std::path::PathBuf::from("/verif/replays");
    let _ = std::fs::create_dir_all(&dir);
    for c in 0..configs {
        let rs = crate::run::run_seed(mix(seed, 0x5747), c);
        let pair = match stateless_pair(rs, c) {
            Some(p) => p,
            None => continue,
        };
        let (sa, sb, ta, tb, name) = pair;
        let mut rng = Rng::new(mix(rs, 0x77));
        // op lists for 3 clients per endpoint
        let mut lists: Vec<(bool, Vec<TOp>)> = vec![];
        for client in 0..6 {
            let on_a = client % 2 == 0;
            let (me, peer) = if on_a { (&ta, &tb) } else { (&tb, &ta) };
            let mut ops = vec![];
            for _ in 0..4 {
                let nonce = if rng.chance(1, 2) { *rng.pick(&[0u64, 1, 0xFFFF_FFFF, 1 << 32, 1 << 63, u64::MAX - 1]) } else { rng.next_u64() >> rng.below(60) };
                let nonce = nonce.min(u64::MAX - 1);
                let pl = rng.usize_below(80);
                let payload = rng.bytes(pl);
                if rng.chance(1, 2) {
                    let expect = me.encrypt_at(me.send_dir(), nonce, &payload);
                    ops.push(TOp::Write { nonce, payload, expect });
                } else {
                    let msg = peer.encrypt_at(peer.send_dir(), nonce, &payload);
                    if rng.chance(1, 5) {
                        ops.push(TOp::Read { nonce: nonce ^ 1, msg, expect: None });
                    } else {
                        ops.push(TOp::Read { nonce, msg, expect: Some(payload) });
                    }
                }
            }
            lists.push((on_a, ops));
        }
        let sa = std::sync::Arc::new(sa);
        let sb = std::sync::Arc::new(sb);
        let lists = std::sync::Arc::new(lists);
        for (sched_kind, sched_seed) in [("random", mix(rs, 1)), ("pct", mix(rs, 2))] {
            let (sa, sb, lists) = (sa.clone(), sb.clone(), lists.clone());
            let body = move || {
                let mut hs = vec![];
                for (on_a, ops) in lists.iter().cloned() {
                    let st = if on_a { sa.clone() } else { sb.clone() };
                    hs.push(shuttle::thread::spawn(move || {
                        for op in ops {
                            shuttle::thread::sleep(std::time::Duration::from_millis(0));
                            match op {
                                TOp::Write { nonce, payload, expect } => {
                                    let mut buf = vec![0u8; payload.len() + 16];
                                    let n = st.write_message(nonce, &payload, &mut buf).expect("stateless write");
                                    assert_eq!(&buf[..n], &expect[..], "stateless write differs from pure function of (key, nonce, payload)");
                                },
                                TOp::Read { nonce, msg, expect } => {
                                    let mut buf = vec![0u8; msg.len()];
                                    let r = st.read_message(nonce, &msg, &mut buf);
                                    match (r, expect) {
                                        (Ok(n), Some(p)) => assert_eq!(&buf[..n], &p[..], "stateless read payload differs"),
                                        (Err(_), None) => {},
                                        (r, e) => panic!("stateless read result {:?} but expected {:?}", r.is_ok(), e.is_some()),
                                    }
                                },
                            }
                        }
                    }));
                }
                for h in hs {
                    h.join().unwrap();
                }
            };
            let mut cfg = shuttle::Config::new();
            cfg.failure_persistence = shuttle::FailurePersistence::File(Some(dir.clone()));
            let res = std::panic::catch_unwind(std::panic::AssertUnwindSafe(|| {
                if sched_kind == "random" {
                    shuttle::Runner::new(RandomScheduler::new_from_seed(sched_seed, iters), cfg).run(body)
                } else {
                    shuttle::Runner::new(PctScheduler::new_from_seed(sched_seed, 3, iters), cfg).run(body)
                }
            }));
            match res {
                Ok(n) => total_schedules += n as u64,
                Err(_) => {
                    let msg = crate::world::LAST_PANIC.with(|p| p.borrow_mut().take()).unwrap_or_default();
                    out.viol.push((
                        Violation { prop: "C16".into(), clause: "threads-result-differs".into(), site: format!("shuttle-{sched_kind}"), detail: format!("{name}: {msg} (schedule persisted under /verif/replays by shuttle)"), op_index: 0 },
                        None,
                    ));
                },
            }
        }
        if c < 2 {
            out.samples.push(json!({"shuttle_config": name, "threads": 6, "ops_per_thread": 4}));
        }
    }
    out.evaluations += total_schedules;
    out.distinct += configs as u64;
    *out.probes.entry("shuttle-schedules-executed").or_insert(0) += total_schedules;
    out.summary.push(json!({"enumeration": "stateless-threads (shuttle, call-granular interleavings of 6 threads on two shared stateless sessions)", "configs": configs, "schedules": total_schedules, "schedulers": ["random", "pct(depth 3)"]}));
}

/// C16 layer (c), thorough tier: 3 real threads with preemptive seeded scheduling and data-race
/// detection under Miri (default backend only; ring is C/asm and cannot run under Miri).
fn miri_threads(seed: u64, out: &mut EnumOut) {
    let seeds = 24u64;
    let lo = (seed % 1000) * 100;
    let mut total = 0u64;
    for name in ["Noise_NN_25519_ChaChaPoly_BLAKE2s", "Noise_NN_25519_AESGCM_SHA256"] {
        let flags = format!("-Zmiri-many-seeds={}..{} -Zmiri-preemption-rate=0.1", lo, lo + seeds);
        let res = std::process::Command::new("cargo")
            .args(["+nightly", "miri", "run", "--offline", "--", name])
            .current_dir("/verif/sim-miri")
            .env("MIRIFLAGS", &flags)
            .env("CARGO_NET_OFFLINE", "true")
            .output();
        match res {
            Err(e) => out.harness_errors.push(format!("cannot run miri: {e}")),
            Ok(o) => {
                let text = format!("{}\n{}", String::from_utf8_lossy(&o.stdout), String::from_utf8_lossy(&o.stderr));
                let oks = text.matches("miri-threads ok").count() as u64;
                total += oks;
                if !o.status.success() || oks != seeds {
                    let path = format!("/verif/replays/C16-miri-{}-{}.log", seed, name);
                    let _ = std::fs::create_dir_all("/verif/replays");
                    let _ = std::fs::write(&path, format!("MIRIFLAGS={flags}\ncd /verif/sim-miri && cargo +nightly miri run --offline -- {name}\n\n{text}"));
                    if text.contains("differs under concurrency") || text.contains("Data race") || text.contains("data race") || text.contains("wrong nonce accepted") || text.contains("thread panicked") {
                        out.viol.push((
                            Violation { prop: "C16".into(), clause: "miri-threads".into(), site: "miri-preemptive".into(), detail: format!("{name}: {oks}/{seeds} seeds passed; output saved in {path}"), op_index: 0 },
                            None,
                        ));
                    } else {
                        out.harness_errors.push(format!("miri run failed without a property assertion ({oks}/{seeds} ok); see {path}"));
                    }
                }
            },
        }
    }
    out.evaluations += total;
    *out.probes.entry("miri-seeds-executed").or_insert(0) += total;
    out.summary.push(json!({"enumeration": "stateless-threads under Miri (3 preemptively scheduled threads, data-race detection, default backend)", "seeds": total, "seed_range_start": lo}));
}

/// C06 supplementary (not simulation): the real random sources behind DefaultResolver and
/// RingResolver are never reached by the simulated runs (the RNG seam replaces them), so here they
/// are exercised directly: draws are distinct, and two sessions built with the stock resolvers
/// put different ephemerals on the wire.
fn real_rng(out: &mut EnumOut) {
    use snow::resolvers::{DefaultResolver, RingResolver};
    let mut n = 0u64;
    for (label, r) in [("default", Box::new(DefaultResolver) as Box<dyn CryptoResolver>), ("ring", Box::new(RingResolver) as Box<dyn CryptoResolver>)] {
        let mut seen = std::collections::BTreeSet::new();
        match r.resolve_rng() {
            None => out.viol.push((Violation { prop: "C06".into(), clause: "no-random-source".into(), site: label.into(), detail: String::new(), op_index: 0 }, None)),
            Some(mut rng) => {
                for _ in 0..64 {
                    let mut b = [0u8; 32];
                    rng.fill_bytes(&mut b);
                    n += 1;
                    if !seen.insert(b) || b == [0u8; 32] {
                        out.viol.push((Violation { prop: "C06".into(), clause: "random-source-repeats".into(), site: label.into(), detail: "two 32-byte draws of the stock random source are equal (or zero)".into(), op_index: 0 }, None));
                        break;
                    }
                }
            },
        }
    }
    for name in ["Noise_NN_25519_ChaChaPoly_SHA256", "Noise_NN_P256_AESGCM_SHA512"] {
        let mut firsts = std::collections::BTreeSet::new();
        for k in 0..4 {
            let b = if k % 2 == 0 {
                snow::Builder::with_resolver(name.parse().unwrap(), Box::new(snow::resolvers::DefaultResolver))
            } else {
                snow::Builder::with_resolver(name.parse().unwrap(), Box::new(FallbackResolver::new(Box::new(snow::resolvers::RingResolver), Box::new(snow::resolvers::DefaultResolver))))
            };
            if let Ok(mut hs) = b.build_initiator() {
                let mut m = vec![0u8; 200];
                if let Ok(l) = hs.write_message(&[], &mut m) {
                    n += 1;
                    if !firsts.insert(m[..l].to_vec()) {
                        out.viol.push((Violation { prop: "C06".into(), clause: "stock-resolver-ephemeral-repeats".into(), site: name.into(), detail: "two sessions built with the stock resolvers sent the same ephemeral".into(), op_index: 0 }, None));
                    }
                }
            }
        }
    }
    out.evaluations += n;
    out.distinct += 2;
    out.summary.push(json!({"enumeration": "stock random sources (supplementary, real OS randomness, not simulation)", "draws_and_sessions": n}));
}
