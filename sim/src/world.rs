//! The simulated world: snow endpoints (real code), their shadow models, the link, the monitors
//! and the oracles. `World::apply` interprets one `Op`; every call into snow goes through one
//! wrapper (catch_unwind, pre-filled buffers, observers before/after).

use crate::ops::*;
use crate::prng::{mix, seeded_bytes, Fnv};
use crate::refnoise::{Field, FieldKind, Proto, RefErr, RefHs, RefTransport, TAGLEN};
use crate::seam::{CipherEvKind, CipherLog, RngMode, RngShared, SharedCipherLog, SimResolver};
use snow::{
    error::StateProblem, Builder, Error, HandshakeState, StatelessTransportState, TransportState,
};
use std::cell::RefCell;
use std::collections::{BTreeMap, BTreeSet, VecDeque};
use std::panic::{catch_unwind, AssertUnwindSafe};
use std::sync::{Arc, Mutex};

pub const MAXMSG: usize = 65535;

thread_local! {
    pub static LAST_PANIC: RefCell<Option<String>> = const { RefCell::new(None) };
}

pub fn install_panic_hook() {
    std::panic::set_hook(Box::new(|info| {
        let msg = if let Some(s) = info.payload().downcast_ref::<&str>() {
            (*s).to_string()
        } else if let Some(s) = info.payload().downcast_ref::<String>() {
            s.clone()
        } else {
            "<non-string panic>".to_string()
        };
        let loc = info.location().map(|l| format!("{}:{}", l.file(), l.line())).unwrap_or_default();
        LAST_PANIC.with(|p| *p.borrow_mut() = Some(format!("{msg} @ {loc}")));
    }));
}

fn guarded<R>(f: impl FnOnce() -> R) -> Result<R, String> {
    match catch_unwind(AssertUnwindSafe(f)) {
        Ok(r) => Ok(r),
        Err(_) => Err(LAST_PANIC.with(|p| p.borrow_mut().take()).unwrap_or_else(|| "panic".into())),
    }
}

pub enum St {
    Hs(Box<HandshakeState>),
    Tr(Box<TransportState>),
    Sl(Box<StatelessTransportState>),
    Gone(&'static str),
}

impl St {
    pub fn phase(&self) -> &'static str {
        match self {
            St::Hs(_) => "hs",
            St::Tr(_) => "tr",
            St::Sl(_) => "sl",
            St::Gone(_) => "gone",
        }
    }
}

#[derive(Clone, Debug)]
pub enum Phase {
    Hs { idx: usize },
    Tr { nonce: u64 },
}

#[derive(Clone, Debug)]
pub struct Msg {
    pub from: u8,
    pub phase: Phase,
    pub bytes: Vec<u8>,
    pub payload: Vec<u8>,
    pub fields: Vec<Field>,
    /// plaintext of the sender's static key when the message carries it encrypted
    pub s_plain: Option<Vec<u8>>,
}

pub struct Node {
    pub st: St,
    pub proto: Option<Arc<Proto>>,
    pub shadow: Option<RefHs>,
    pub trm: Option<RefTransport>,
    pub rng: Arc<RngShared>,
    pub model_rs: Option<Vec<u8>>,
    pub rs_suspended: bool,
    /// while suspended: the values get_remote_static() may legitimately show (the value before
    /// the failed read, or the key the rejected message's 's' field authentically decrypts to)
    pub rs_allowed: Vec<Option<Vec<u8>>>,
    pub sl_next: u64,
    pub written: Vec<usize>,
    pub send_tainted: bool,
    /// some rekey call was made on this endpoint
    pub rekeyed: bool,
    pub had_error: bool,
    pub build_result: String,
    /// current psk view of the node (index -> key), mirrors what snow was told
    pub ok_writes: u32,
    pub ok_reads: u32,
    pub final_hash: Option<Vec<u8>>,
}

#[derive(Default, Clone)]
pub struct Stats {
    pub steps: u64,
    pub faults: BTreeMap<&'static str, u64>,
    pub probes: BTreeMap<&'static str, u64>,
    pub results: BTreeMap<String, u64>,
    pub states: BTreeSet<String>,
    pub aborted_by_panic: u64,
}

impl Stats {
    pub fn fault(&mut self, k: &'static str) {
        *self.faults.entry(k).or_insert(0) += 1;
    }
    pub fn probe(&mut self, k: &'static str) {
        *self.probes.entry(k).or_insert(0) += 1;
    }
    pub fn merge(&mut self, o: &Stats) {
        self.steps += o.steps;
        for (k, v) in &o.faults {
            *self.faults.entry(k).or_insert(0) += v;
        }
        for (k, v) in &o.probes {
            *self.probes.entry(k).or_insert(0) += v;
        }
        for (k, v) in &o.results {
            *self.results.entry(k.clone()).or_insert(0) += v;
        }
        for s in &o.states {
            self.states.insert(s.clone());
        }
        self.aborted_by_panic += o.aborted_by_panic;
    }
}

/// One successful wire event, for control-run / twin-universe comparison.
#[derive(Clone, Debug, PartialEq, Eq)]
pub struct WireEv {
    pub node: u8,
    pub write: bool,
    pub bytes: Vec<u8>,
}

pub struct World {
    pub cfg: RunCfg,
    pub nodes: Vec<Node>,
    pub history: Vec<Msg>,
    pub inbox: Vec<VecDeque<usize>>,
    pub viol: Vec<Violation>,
    pub stats: Stats,
    pub trace: Fnv,
    /// like `trace` but with every Err folded to one value (error variants may legally differ
    /// between backends)
    pub class_trace: Fnv,
    pub abstract_trace: Fnv,
    pub wire: Vec<WireEv>,
    call_id: u64,
    cipher_log: SharedCipherLog,
    ledger: BTreeMap<([u8; 32], u64), ((u64, u64), (u64, u64), u8)>,
    ephemerals: BTreeSet<Vec<u8>>,
    pub op_index: usize,
    /// (op index, outcome) log for debugging / dumps
    pub outcomes: Vec<(usize, String)>,
    cur_node: usize,
    pub epilogue: bool,
    pub faults_in_run: u64,
    pub keep_outcomes: bool,
    /// history index of a message presented without being taken out of flight
    peeked: Option<usize>,
    /// a rekey_* API call is in progress (its use of nonce 2^64-1 is the one legitimate use)
    in_rekey_call: bool,
    /// when false, the write-side ledger ignores events (harness-induced reuse)
    harness_nonce_call: bool,
    /// per session: Some(error count at the time) once a non-genuine handshake message was accepted
    pub tamper_accepted: Vec<Option<(u64, String)>>,
    /// per session: number of calls that returned Err
    pub errs: Vec<u64>,
    /// per session: an out-of-phase call (turn / finished / one-way) has been made
    pub misuse: Vec<bool>,
    /// per session: calls that returned an error other than "PSK not supplied yet"
    pub errs_hard: Vec<u64>,
}

fn ecode(e: &Error) -> u32 {
    match e {
        Error::Input => 1,
        Error::Decrypt => 2,
        Error::Dh => 3,
        Error::State(s) => match s {
            StateProblem::MissingKeyMaterial => 10,
            StateProblem::MissingPsk => 11,
            StateProblem::NotTurnToWrite => 12,
            StateProblem::NotTurnToRead => 13,
            StateProblem::HandshakeNotFinished => 14,
            StateProblem::HandshakeAlreadyFinished => 15,
            StateProblem::OneWay => 16,
            StateProblem::Exhausted => 17,
        },
        Error::Init(_) => 30,
        Error::Prereq(_) => 40,
        Error::Pattern(_) => 50,
        _ => 99,
    }
}

#[derive(Clone, Copy, PartialEq, Eq, Debug)]
enum Why {
    Turn,
    Finished,
    OneWay,
    Oversize,
    ShortBuf,
    ShortOut,
    MissingPsk,
    Crypto,
    Exhausted,
    Dh,
}

pub fn prefill(len: usize, salt: u64) -> Vec<u8> {
    let s = (salt as u8) | 1;
    (0..len).map(|i| 0xA5u8 ^ (i as u8).wrapping_mul(s).wrapping_add(s)).collect()
}

fn psk_array(cfg: &NodeCfg, boot_only: bool) -> [Option<[u8; 32]>; 10] {
    let mut a = [None; 10];
    for p in &cfg.psks {
        if (p.at_boot || !boot_only) && (p.idx as usize) < 10 && p.key.len() == 32 {
            let mut k = [0u8; 32];
            k.copy_from_slice(&p.key);
            a[p.idx as usize] = Some(k);
        }
    }
    a
}

/// Build the real snow endpoint from a node configuration. Err(String) carries Debug of the error.
pub fn build_snow(
    cfg: &NodeCfg,
    rng: Arc<RngShared>,
    record: Option<(u8, SharedCipherLog)>,
) -> Result<Result<HandshakeState, Error>, String> {
    guarded(|| {
        let params: snow::params::NoiseParams = cfg.name.parse()?;
        let resolver = SimResolver::new(cfg.backend, rng, record, cfg.deny).with_evil_static_pub(cfg.evil_static_pub).with_deny_at(cfg.deny_at);
        let mut b = Builder::with_resolver(params, Box::new(resolver));
        let mut keys: Vec<(u8, [u8; 32])> = vec![];
        for p in &cfg.psks {
            if p.at_boot && p.key.len() == 32 {
                let mut k = [0u8; 32];
                k.copy_from_slice(&p.key);
                keys.push((p.idx, k));
            }
        }
        if cfg.build_order & 64 != 0 {
            keys.reverse();
        }
        // the builder calls in the order this configuration prescribes
        let mut steps = vec![0u8, 1, 2, 3];
        let mut code = (cfg.build_order % 24) as usize;
        let mut order = vec![];
        for n in (1..=4).rev() {
            order.push(steps.remove(code % n));
            code /= n;
        }
        for step in order {
            match step {
                0 => {
                    for (i, k) in &keys {
                        b = b.psk(*i, k)?;
                    }
                },
                1 => {
                    if let Some(s) = &cfg.s_priv {
                        b = b.local_private_key(s)?;
                    }
                },
                2 => {
                    if let Some(r) = &cfg.rs_pub {
                        b = b.remote_public_key(r)?;
                    }
                },
                _ => {
                    if !(cfg.prologue.is_empty() && cfg.build_order & 32 != 0) {
                        b = b.prologue(&cfg.prologue)?;
                    }
                },
            }
        }
        if cfg.initiator {
            b.build_initiator()
        } else {
            b.build_responder()
        }
    })
}

impl World {
    pub fn new(cfg: RunCfg) -> World {
        let cipher_log: SharedCipherLog = Arc::new(Mutex::new(CipherLog::default()));
        let mut w = World {
            nodes: vec![],
            history: vec![],
            inbox: vec![VecDeque::new(); cfg.nodes.len()],
            viol: vec![],
            stats: Stats::default(),
            trace: Fnv::new(),
            class_trace: Fnv::new(),
            abstract_trace: Fnv::new(),
            wire: vec![],
            call_id: 0,
            cipher_log,
            ledger: BTreeMap::new(),
            ephemerals: BTreeSet::new(),
            op_index: 0,
            outcomes: vec![],
            cur_node: 0,
            epilogue: false,
            faults_in_run: 0,
            keep_outcomes: false,
            peeked: None,
            in_rekey_call: false,
            harness_nonce_call: false,
            tamper_accepted: vec![None; (cfg.nodes.len() + 1) / 2],
            errs: vec![0; (cfg.nodes.len() + 1) / 2],
            misuse: vec![false; (cfg.nodes.len() + 1) / 2],
            errs_hard: vec![0; (cfg.nodes.len() + 1) / 2],
            cfg,
        };
        for i in 0..w.cfg.nodes.len() {
            let n = w.boot(i);
            w.nodes.push(n);
        }
        w
    }

    fn boot(&mut self, i: usize) -> Node {
        let nc = self.cfg.nodes[i].clone();
        let rng = RngShared::new(nc.rng_seed, self.cfg.rng_mode);
        rng.begin_call(0, mix(i as u64, 0xB007));
        let record = if self.cfg.record { Some((i as u8, self.cipher_log.clone())) } else { None };
        // model's view
        let proto = Proto::parse(&nc.name).ok().map(Arc::new);
        let key_len_ok = |p: &Proto| {
            nc.s_priv.as_ref().map_or(true, |s| s.len() == 32 && p.dh.pubkey(s).is_some())
                && nc.rs_pub.as_ref().map_or(true, |r| r.len() == p.pub_len())
        };
        let shadow = match &proto {
            Some(p) if key_len_ok(p) => RefHs::new(
                p.clone(),
                nc.initiator,
                &nc.prologue,
                nc.s_priv.as_deref(),
                nc.rs_pub.as_deref(),
                psk_array(&nc, true),
            )
            .ok(),
            _ => None,
        };
        let keys_regular = proto.as_ref().map_or(false, |p| key_len_ok(p));
        // model's build expectation (C12): keys the pattern text requires are supplied, the name
        // is one the model implements, the resolver has every primitive
        let expect_ok = match &proto {
            Some(p) => {
                (!p.needs_local_static(nc.initiator) || nc.s_priv.is_some())
                    && (!p.needs_remote_static(nc.initiator) || nc.rs_pub.is_some())
                    && nc.deny.is_none()
                    && nc.psks.iter().all(|k| !k.at_boot || (k.idx as usize) < 10)
                    && {
                        let mut seen = std::collections::BTreeSet::new();
                        nc.psks.iter().filter(|k| k.at_boot).all(|k| seen.insert(k.idx))
                    }
            },
            None => false,
        };
        let built = build_snow(&nc, rng.clone(), record);
        let (st, build_result) = match built {
            Err(p) => {
                // the DH named by the string, even when the model does not implement the name
                let dh_by_name = match nc.name.split('_').nth(2) {
                    Some("P256") => Some(crate::refnoise::DhK::P256),
                    Some("25519") => Some(crate::refnoise::DhK::X25519),
                    _ => None,
                };
                let invalid_p256_scalar = dh_by_name == Some(crate::refnoise::DhK::P256)
                    && nc.s_priv.as_ref().map_or(false, |s| {
                        s.len() <= 32 && {
                            let mut k = [0u8; 32];
                            k[..s.len()].copy_from_slice(s);
                            crate::refnoise::DhK::P256.pubkey(&k).is_none()
                        }
                    });
                let irregular = match &proto {
                    _ if invalid_p256_scalar => "invalid-scalar",
                    Some(p) => {
                        let s_len = nc.s_priv.as_ref().map(|s| s.len());
                        let r_len = nc.rs_pub.as_ref().map(|r| r.len());
                        if s_len.map_or(false, |l| l > 32) {
                            "s_priv-too-long"
                        } else if r_len.map_or(false, |l| l > p.pub_len()) {
                            "rs_pub-too-long"
                        } else if p.dh == crate::refnoise::DhK::P256 && nc.s_priv.as_ref().map_or(false, |s| {
                            let mut k = [0u8; 32];
                            k[..s.len()].copy_from_slice(s);
                            p.dh.pubkey(&k).is_none()
                        }) {
                            "invalid-scalar"
                        } else if keys_regular {
                            "regular-keys"
                        } else {
                            "short-keys"
                        }
                    },
                    None => "unparsed-name",
                };
                let site = format!("build/{}/{}", dh_by_name.map_or("?", |d| d.name()), irregular);
                // a panic is neither a successful build nor a descriptive error
                self.flag(&["C10", "C12"], "panic", &site, &format!("build panicked: {p}"));
                self.stats.aborted_by_panic += 1;
                (St::Gone("build-panic"), "panic".to_string())
            },
            Ok(Ok(hs)) => (St::Hs(Box::new(hs)), "ok".to_string()),
            Ok(Err(e)) => {
                self.render_err(&e);
                (St::Gone("build-err"), format!("{e:?}"))
            },
        };
        // don't-care zones of the build expectation: zero-padded psk indices are a name-grammar
        // question (C13, not claimed); the random source is not one of the "named primitives"
        let padded_psk = nc.name.contains("psk0") && nc.name.split('_').nth(1).map_or(false, |h| {
            h.split('+').any(|m| m.rsplit("psk").next().map_or(false, |d| d.len() > 1 && d.starts_with('0')))
        });
        // a positional denial (only the k-th request refused) pins no outcome either: how many
        // objects of a kind the builder asks for is not part of any property - it must not panic,
        // and whatever it builds must work
        let dont_care_build = (padded_psk && build_result != "ok") || nc.deny == Some(crate::seam::Prim::Rng) || (nc.deny.is_some() && nc.deny_at > 0);
        if (keys_regular || proto.is_none()) && !dont_care_build {
            let got_ok = build_result == "ok";
            if build_result != "panic" && got_ok != expect_ok {
                let site = format!(
                    "{}/{}/s={}/rs={}/deny={:?}",
                    proto.as_ref().map_or("unparsed", |p| p.base.as_str()),
                    if nc.initiator { "I" } else { "R" },
                    nc.s_priv.is_some(),
                    nc.rs_pub.is_some(),
                    nc.deny
                );
                self.flag(
                    &["C12"],
                    if got_ok { "build-ok-but-must-fail" } else { "build-fails-but-must-succeed" },
                    &site,
                    &format!("name={} result={}", nc.name, build_result),
                );
            }
        }
        // a boot that is wrong for exactly one reason has to name that reason
        if let (Some(p), true, false) = (&proto, keys_regular, dont_care_build) {
            let psk_ok = nc.psks.iter().all(|k| !k.at_boot || (k.idx as usize) < 10) && {
                let mut seen = std::collections::BTreeSet::new();
                nc.psks.iter().filter(|k| k.at_boot).all(|k| seen.insert(k.idx))
            };
            let mut causes: Vec<&str> = vec![];
            if p.needs_local_static(nc.initiator) && nc.s_priv.is_none() {
                causes.push("Prereq(LocalPrivateKey)");
            }
            if p.needs_remote_static(nc.initiator) && nc.rs_pub.is_none() {
                causes.push("Prereq(RemotePublicKey)");
            }
            match nc.deny {
                Some(crate::seam::Prim::Dh) => causes.push("Init(GetDhImpl)"),
                Some(crate::seam::Prim::Hash) => causes.push("Init(GetHashImpl)"),
                Some(crate::seam::Prim::Cipher) => causes.push("Init(GetCipherImpl)"),
                _ => {},
            }
            if psk_ok && causes.len() == 1 && build_result != "ok" && build_result != "panic" && build_result != causes[0] {
                self.flag(&["C12"], "build-error-names-another-cause", causes[0], &format!("name={} initiator={} result={}", nc.name, nc.initiator, build_result));
            }
        }
        if !expect_ok && (keys_regular || proto.is_none()) && matches!(build_result.as_str(), "Input" | "Decrypt" | "Dh") {
            self.flag(&["C12"], "build-error-not-descriptive", &format!("{}", build_result), &format!("name={} initiator={} s={} rs={} deny={:?}", nc.name, nc.initiator, nc.s_priv.is_some(), nc.rs_pub.is_some(), nc.deny));
        }
        self.trace.write(build_result.as_bytes());
        let mut shadow = if matches!(st, St::Hs(_)) { shadow } else { None };
        if nc.evil_static_pub {
            if let Some(sh) = shadow.as_mut() {
                if let Some(kp) = sh.s.as_mut() {
                    kp.pubk = crate::seam::corrupt_pub(&kp.pubk);
                }
            }
        }
        if matches!(st, St::Hs(_)) && shadow.is_none() && keys_regular {
            // snow built something the model cannot follow: only possible through C12 violation
        }
        let model_rs = shadow.as_ref().and_then(|s| s.rs.clone());
        let mut node = Node {
            st,
            proto,
            shadow,
            trm: None,
            rng,
            model_rs,
            rs_suspended: false,
            rs_allowed: vec![],
            sl_next: 0,
            written: vec![],
            send_tainted: false,
            rekeyed: false,
            had_error: false,
            build_result,
            ok_writes: 0,
            ok_reads: 0,
            final_hash: None,
        };
        self.post_checks(i, &mut node, "boot");
        node
    }

    pub fn flag(&mut self, props: &[&str], clause: &str, site: &str, detail: &str) {
        for p in props {
            self.viol.push(Violation {
                prop: p.to_string(),
                clause: clause.to_string(),
                site: site.to_string(),
                detail: detail.to_string(),
                op_index: self.op_index,
            });
        }
    }

    fn peer(i: usize) -> usize {
        i ^ 1
    }

    fn site_hs(&self, node: &Node, what: &str) -> String {
        match &node.shadow {
            Some(s) => format!(
                "{}/{}/{}/msg{}",
                what,
                s.proto.base,
                if s.proto.is_psk() { "psk" } else { "nopsk" },
                s.idx
            ),
            None => format!("{what}/nomodel"),
        }
    }

    fn begin_call(&mut self, node: &Node, ctx: u64) {
        self.call_id += 1;
        node.rng.begin_call(self.call_id, ctx);
        let mut l = self.cipher_log.lock().unwrap();
        l.call_id = self.call_id;
    }

    /// Drain recorded cipher events into the (key, nonce) ledger (C06) and the reserved-nonce
    /// check (C09).
    fn drain_cipher_log(&mut self, node_idx: usize, site: &str, tainted: bool) {
        let events: Vec<_> = {
            let mut l = self.cipher_log.lock().unwrap();
            std::mem::take(&mut l.events)
        };
        for ev in events {
            match ev.kind {
                CipherEvKind::RekeyEncrypt => {
                    self.stats.probe("rekey-encrypt-at-reserved-nonce");
                    // the rekey's own encryption occupies (key, 2^64-1): nothing else may
                    let key = (ev.key, ev.nonce);
                    match self.ledger.get(&key) {
                        Some((ad, data, who)) if (*ad, *data) != (ev.ad, ev.data) => {
                            let detail = format!("key {}.. nonce 2^64-1 used by node {} for a message and by rekey", hex::encode(&ev.key[..4]), who);
                            self.flag(&["C06", "C09"], "key-nonce-reuse", &format!("{site}/reserved-nonce"), &detail);
                        },
                        Some(_) => {},
                        None => {
                            self.ledger.insert(key, (ev.ad, ev.data, node_idx as u8));
                        },
                    }
                },
                CipherEvKind::Decrypt => {
                    if ev.nonce == u64::MAX {
                        self.flag(
                            &["C09"],
                            "reserved-nonce-used",
                            &format!("{site}/decrypt"),
                            "cipher asked to decrypt with nonce 2^64-1",
                        );
                    }
                },
                CipherEvKind::Encrypt if ev.nonce == u64::MAX && self.in_rekey_call => {
                    // REKEY computed by the caller of the cipher instead of Cipher::rekey
                    self.stats.probe("rekey-encrypt-at-reserved-nonce");
                },
                CipherEvKind::Encrypt => {
                    if ev.nonce == u64::MAX {
                        self.flag(
                            &["C09"],
                            "reserved-nonce-used",
                            &format!("{site}/encrypt"),
                            "cipher asked to encrypt with nonce 2^64-1 outside rekey",
                        );
                    }
                    // reuse the harness itself causes (explicit stateless nonces, sending nonce
                    // moved backwards, replayed ephemerals) is not snow's - except at 2^64-1,
                    // which no caller action can legitimately reach
                    // Also outside C06's quantifier (failing and retried calls between honest
                    // parties): a session that has accepted a non-genuine handshake message. Its
                    // keys may be functions of attacker-chosen values only - e.g. an all-zero
                    // X25519 point, which the specification allows an implementation to accept,
                    // makes ee/es/se contribute nothing, so two attempts at one message meet at
                    // the same key although each used a fresh ephemeral.
                    let attacker_keys = self.tamper_accepted.get(node_idx / 2).map_or(false, |t| t.is_some());
                    if (tainted || attacker_keys || self.harness_nonce_call || self.cfg.rng_mode != RngMode::Stream) && ev.nonce != u64::MAX {
                        continue;
                    }
                    let key = (ev.key, ev.nonce);
                    match self.ledger.get(&key) {
                        Some((ad, data, who)) if (*ad, *data) != (ev.ad, ev.data) => {
                            let detail = format!(
                                "key {}.. nonce {} used by node {} and node {} for different inputs (len {})",
                                hex::encode(&ev.key[..4]),
                                ev.nonce,
                                who,
                                node_idx,
                                ev.data_len
                            );
                            self.flag(&["C06"], "key-nonce-reuse", site, &detail);
                        },
                        Some(_) => {},
                        None => {
                            self.ledger.insert(key, (ev.ad, ev.data, node_idx as u8));
                        },
                    }
                },
            }
        }
    }

    /// Everything a handshake state reports about itself (compared around failing calls; the
    /// payload-encrypted indication belongs to the last *successful* write).
    fn observers_hs(hs: &HandshakeState) -> (bool, bool, bool, Vec<u8>, bool) {
        (
            hs.is_my_turn(),
            hs.is_handshake_finished(),
            hs.is_initiator(),
            hs.get_handshake_hash().to_vec(),
            hs.was_write_payload_encrypted(),
        )
    }

    /// A node the model cannot follow (keys of irregular length that the builder accepted, an
    /// accepted out-of-domain argument): its calls are still made, under the panic monitor and
    /// the "an error changes nothing observable" rule - no other oracle applies.
    fn blind_hs_call(&mut self, node: &mut Node, write: bool, data: &[u8], buflen: usize) {
        let hs = match &mut node.st {
            St::Hs(h) => h,
            _ => return,
        };
        self.call_id += 1;
        node.rng.begin_call(self.call_id, 0xB11D);
        let before = guarded(|| Self::observers_hs(hs));
        let mut out = prefill(buflen.min(80_000), self.call_id);
        let r = guarded(|| if write { hs.write_message(data, &mut out) } else { hs.read_message(data, &mut out) });
        let what = if write { "blind/hs-write" } else { "blind/hs-read" };
        match r {
            Err(p) => {
                self.flag(&["C10"], "panic", what, &format!("{p}; len={} buf={buflen}", data.len()));
                self.stats.aborted_by_panic += 1;
                node.st = St::Gone("panic");
            },
            Ok(res) => {
                self.stats.probe("call-on-node-without-model");
                self.trace.write_u64(res.is_ok() as u64);
                if let Err(e) = &res {
                    self.render_err(e);
                    if let St::Hs(hs) = &node.st {
                        let after = guarded(|| Self::observers_hs(hs));
                        match (before, after) {
                            (Ok(b), Ok(a)) if a != b => self.flag(&["C07"], "observables-changed-by-failed-call", what, &format!("{e:?}")),
                            (_, Err(p)) | (Err(p), _) => self.flag(&["C10"], "panic", "blind/query", &p),
                            _ => {},
                        }
                    }
                }
            },
        }
    }

    /// Monitors evaluated after every op on a node: indicators (C11), remote static (C17).
    /// The rest of the query surface, at whatever moment the driver asks: the Debug impls of the
    /// state objects, and the raw split asked for twice on a live handshake (it must be stable,
    /// equal the model's Split() once the handshake is over, and leave the session undisturbed -
    /// the following messages are compared with the model as always).
    /// Render an error the way an application would log it (Display must not panic either).
    fn render_err(&mut self, e: &Error) {
        if let Err(p) = guarded(|| format!("{e}").len()) {
            self.flag(&["C10"], "panic", &format!("error-display/{e:?}"), &p);
        }
    }

    fn deep_query(&mut self, node: &mut Node) {
        let phase = node.st.phase();
        let dbg = guarded(|| match &node.st {
            St::Hs(h) => format!("{h:?}").len(),
            St::Tr(t) => format!("{t:?}").len(),
            St::Sl(t) => format!("{t:?}").len(),
            St::Gone(_) => 0,
        });
        if let Err(p) = dbg {
            self.flag(&["C10"], "panic", &format!("debug-fmt/{phase}"), &p);
        }
        #[cfg(feature = "rawsplit")]
        let finished_split = node.shadow.as_ref().and_then(|s| if s.finished() { s.split } else { None });
        #[cfg(feature = "rawsplit")]
        if let St::Hs(hs) = &mut node.st {
            match guarded(|| (hs.dangerously_get_raw_split(), hs.dangerously_get_raw_split())) {
                Err(p) => self.flag(&["C10"], "panic", "raw-split", &p),
                Ok((a, b)) => {
                    if a != b {
                        self.flag(&["C01", "C02"], "raw-split-unstable", "query", "two consecutive dangerously_get_raw_split() calls differ");
                    }
                    if let Some((k1, k2)) = finished_split {
                        if a != (k1, k2) {
                            self.flag(&["C01"], "raw-split-differs-from-model", "query", "dangerously_get_raw_split() is not Split() of the final chaining key");
                        }
                    }
                },
            }
        }
    }

    fn post_checks(&mut self, i: usize, node: &mut Node, what: &str) {
        let r = guarded(|| match &node.st {
            St::Hs(hs) => {
                let (t, f, ini, _, _) = Self::observers_hs(hs);
                Some((Some((t, f)), ini, hs.get_remote_static().map(|r| r.to_vec())))
            },
            St::Tr(t) => Some((None, t.is_initiator(), t.get_remote_static().map(|r| r.to_vec()))),
            St::Sl(t) => Some((None, t.is_initiator(), t.get_remote_static().map(|r| r.to_vec()))),
            St::Gone(_) => None,
        });
        let r = match r {
            Err(p) => {
                self.flag(&["C10"], "panic", &format!("query/{}", node.st.phase()), &p);
                node.st = St::Gone("panic");
                return;
            },
            Ok(None) => return,
            Ok(Some(r)) => r,
        };
        let (tf, ini, rs) = r;
        let cfg_ini = self.cfg.nodes[i].initiator;
        if ini != cfg_ini {
            self.flag(&["C11"], "indicator-initiator", &format!("{what}/{}", node.st.phase()), "is_initiator differs from role built");
        }
        if let (Some((t, f)), Some(sh)) = (tf, &node.shadow) {
            // whose turn it is is only defined by the pattern while messages remain
            if (t != sh.my_turn() && !sh.finished()) || f != sh.finished() {
                let site = self.site_hs(node, what);
                self.flag(
                    &["C11", "C02"],
                    "indicator-mismatch",
                    &site,
                    &format!("is_my_turn={t} finished={f}; model turn={} finished={}", sh.my_turn(), sh.finished()),
                );
            }
        }
        if node.shadow.is_some() && !node.rs_suspended {
            let expect = match &node.st {
                St::Hs(_) => node.shadow.as_ref().and_then(|s| s.rs.clone()),
                _ => node.model_rs.clone(),
            };
            if rs != expect {
                let p = node.shadow.as_ref().unwrap().proto.clone();
                let site = format!("{}/{}/{}", node.st.phase(), p.dh.name(), what);
                self.flag(
                    &["C17"],
                    "remote-static-mismatch",
                    &site,
                    &format!(
                        "get_remote_static={:?} model={:?} ({})",
                        rs.as_ref().map(|r| (r.len(), hex::encode(&r[..r.len().min(6)]))),
                        expect.as_ref().map(|r| (r.len(), hex::encode(&r[..r.len().min(6)]))),
                        p.name
                    ),
                );
            } else if expect.is_some() {
                self.stats.probe("remote-static-verified");
            }
        } else if node.shadow.is_some() && node.rs_suspended && matches!(node.st, St::Hs(_)) {
            if !node.rs_allowed.contains(&rs) {
                let p = node.shadow.as_ref().unwrap().proto.clone();
                self.flag(
                    &["C17", "C07"],
                    "remote-static-after-failed-read",
                    &format!("hs/{}/{}", p.dh.name(), what),
                    &format!(
                        "after a rejected message get_remote_static={:?}, which is neither the value before the failed read nor the key the message authentically carries ({})",
                        rs.as_ref().map(|r| (r.len(), hex::encode(&r[..r.len().min(6)]))),
                        p.name
                    ),
                );
            } else {
                self.stats.probe("remote-static-checked-after-failed-read");
            }
        }
    }

    fn resolve_buf(b: Buf, needed: usize, fields: &[Field]) -> usize {
        match b {
            Buf::Ample => needed + 64,
            Buf::Exact => needed,
            Buf::Delta(d) => (needed as i64 + d as i64).max(0) as usize,
            Buf::Abs(n) => n as usize,
            Buf::AtField { field, delta } => {
                if fields.is_empty() {
                    return needed;
                }
                let f = &fields[field as usize % fields.len()];
                (f.off as i64 + delta as i64).max(0) as usize
            },
        }
    }

    fn apply_mutation(m: Mutation, msg: &Msg) -> (Vec<u8>, &'static str) {
        let mut b = msg.bytes.clone();
        let kind = match m {
            Mutation::None => "none",
            Mutation::Flip { field, pos, bit } => {
                let fs: Vec<&Field> = msg.fields.iter().filter(|f| f.len > 0).collect();
                if fs.is_empty() || b.is_empty() {
                    "none"
                } else {
                    let f = fs[field as usize % fs.len()];
                    let p = if pos >= u32::MAX - 1 { f.off + f.len - 1 - ((u32::MAX - pos) as usize).min(f.len - 1) } else { f.off + (pos as usize % f.len) };
                    if p < b.len() {
                        b[p] ^= 1 << (bit % 8);
                    }
                    "bitflip"
                }
            },
            Mutation::TruncAbs { to } => {
                b.truncate(to as usize);
                "truncate"
            },
            Mutation::TruncField { field, delta } => {
                if !msg.fields.is_empty() {
                    let f = &msg.fields[field as usize % msg.fields.len()];
                    let to = (f.off as i64 + delta as i64).max(0) as usize;
                    b.truncate(to);
                }
                "truncate"
            },
            Mutation::Extend { by, fill } => {
                let by = (by as usize).min(70_000);
                b.extend(std::iter::repeat(fill).take(by));
                "extend"
            },
            Mutation::SetField { field, byte } => {
                let fs: Vec<&Field> = msg.fields.iter().filter(|f| f.len > 0).collect();
                if !fs.is_empty() {
                    let f = fs[field as usize % fs.len()];
                    for x in b[f.off..(f.off + f.len).min(msg.bytes.len())].iter_mut() {
                        *x = byte;
                    }
                }
                "setfield"
            },
            Mutation::ByteSet { field, pos, byte } => {
                let fs: Vec<&Field> = msg.fields.iter().filter(|f| f.len > 0).collect();
                if !fs.is_empty() {
                    let f = fs[field as usize % fs.len()];
                    let p = if pos >= u32::MAX - 1 { f.off + f.len - 1 - ((u32::MAX - pos) as usize).min(f.len - 1) } else { f.off + (pos as usize % f.len) };
                    if p < b.len() {
                        b[p] = byte;
                    }
                }
                "byteset"
            },
            Mutation::TruncLast { n } => {
                let l = b.len().saturating_sub(n as usize);
                b.truncate(l);
                "truncate"
            },
            Mutation::Multi { k, seed } => {
                if !b.is_empty() {
                    let mut r = crate::prng::Rng::new(seed as u64);
                    for _ in 0..k.max(1) {
                        let p = r.usize_below(b.len());
                        b[p] ^= (r.below(255) + 1) as u8;
                    }
                }
                "multiedit"
            },
        };
        (b, kind)
    }

    fn fetch(&mut self, node: usize, src: Src) -> Option<(Vec<u8>, Option<Msg>, &'static str)> {
        match src {
            Src::Next => {
                let hi = self.inbox[node].pop_front()?;
                let m = self.history[hi].clone();
                Some((m.bytes.clone(), Some(m), "inorder"))
            },
            Src::Pick { k, consume } => {
                let q = &mut self.inbox[node];
                if q.is_empty() {
                    return None;
                }
                let k = (k as usize).min(q.len() - 1);
                let hi = if consume { q.remove(k).unwrap() } else { q[k] };
                if !consume {
                    self.peeked = Some(hi);
                }
                let m = self.history[hi].clone();
                let kind = if k > 0 {
                    "reorder"
                } else if consume {
                    "inorder"
                } else {
                    "peek"
                };
                Some((m.bytes.clone(), Some(m), kind))
            },
            Src::Hist { from, idx } => {
                let w = &self.nodes.get(from as usize)?.written;
                let hi = *w.get(idx as usize)?;
                let m = self.history[hi].clone();
                let kind = if from as usize == node {
                    "reflection"
                } else if from as usize == Self::peer(node) {
                    "replay"
                } else {
                    "cross-session"
                };
                Some((m.bytes.clone(), Some(m), kind))
            },
            Src::Garbage { len, seed } => {
                Some((seeded_bytes(seed as u64, (len as usize).min(70_000)), None, "garbage"))
            },
            Src::Forged { plen, pseed } => {
                let n = self.nodes.get(node)?;
                let trm = n.trm.as_ref()?;
                let stateless = matches!(n.st, St::Sl(_));
                let dir = trm.recv_dir();
                let nonce = if stateless { 0 } else { trm.nonces[dir] };
                if nonce == u64::MAX {
                    return None;
                }
                let payload = seeded_bytes(mix(pseed as u64, 0xF04E), (plen as usize).min(70_000));
                let bytes = trm.encrypt_at(dir, nonce, &payload);
                let fields = vec![
                    Field { kind: FieldKind::Payload, off: 0, len: payload.len(), encrypted: true },
                    Field { kind: FieldKind::PayloadTag, off: payload.len(), len: TAGLEN, encrypted: true },
                ];
                let m = Msg { from: Self::peer(node) as u8, phase: Phase::Tr { nonce }, bytes: bytes.clone(), payload, fields, s_plain: None };
                Some((bytes, Some(m), "forged-by-keyholder"))
            },
        }
    }

    pub fn apply(&mut self, idx: usize, op: &Op) {
        self.op_index = idx;
        self.stats.steps += 1;
        self.trace.write_u64(idx as u64);
        match *op {
            Op::Write { node, plen, pseed, buf, nonce } => self.op_write(node as usize, plen, pseed, buf, nonce),
            Op::Read { node, src, mutation, out, nonce } => {
                self.op_read(node as usize, src, mutation, out, nonce)
            },
            Op::SetPsk { node, idx, kind } => self.op_setpsk(node as usize, idx, kind),
            Op::Convert { node, stateless } => self.op_convert(node as usize, stateless),
            Op::SetRecvNonce { node, v } => self.op_setnonce(node as usize, v, false),
            Op::SetSendNonce { node, v } => self.op_setnonce(node as usize, v, true),
            Op::Rekey { node, which } => self.op_rekey(node as usize, which),
            Op::Drop { node, k } => {
                let q = &mut self.inbox[node as usize % self.nodes.len().max(1)];
                if !q.is_empty() {
                    let k = (k as usize).min(q.len() - 1);
                    q.remove(k);
                    self.stats.fault("loss");
                    self.faults_in_run += 1;
                }
            },
            Op::Dup { node, k } => {
                let q = &mut self.inbox[node as usize % self.nodes.len().max(1)];
                if !q.is_empty() {
                    let k = (k as usize).min(q.len() - 1);
                    let v = q[k];
                    q.push_back(v);
                    self.stats.fault("duplication");
                    self.faults_in_run += 1;
                }
            },
            Op::Delay { node, k } => {
                let q = &mut self.inbox[node as usize % self.nodes.len().max(1)];
                if q.len() > 1 {
                    let k = (k as usize).min(q.len() - 1);
                    let v = q.remove(k).unwrap();
                    q.push_back(v);
                    self.stats.fault("delay");
                    self.faults_in_run += 1;
                }
            },
            Op::Query { node } => {
                let i = node as usize;
                if i < self.nodes.len() {
                    let mut n = self.take(i);
                    self.deep_query(&mut n);
                    self.post_checks(i, &mut n, "query");
                    self.put(i, n);
                }
            },
            Op::Keygen { node } => self.op_keygen(node as usize),
            Op::GarbageBurst { node, count, len, seed } => {
                for k in 0..count {
                    self.op_read(node as usize, Src::Garbage { len: len as u32, seed: seed.wrapping_add(k) }, Mutation::None, Buf::Ample, NonceSel::Auto);
                    if !self.viol.is_empty() && self.viol.len() > 64 {
                        break;
                    }
                }
            },
            Op::RekeyBurst { node, count } => {
                let peer = Self::peer(node as usize);
                for _ in 0..count {
                    self.op_rekey(node as usize, RekeyKind::Outgoing);
                    if peer < self.nodes.len() {
                        self.op_rekey(peer, RekeyKind::Incoming);
                    }
                    if self.viol.len() > 64 {
                        break;
                    }
                }
            },
            Op::TrafficBurst { node, count, plen } => {
                let peer = Self::peer(node as usize);
                for k in 0..count {
                    self.op_write(node as usize, plen as u32, k, Buf::Ample, NonceSel::Auto);
                    if peer < self.nodes.len() {
                        self.op_read(peer, Src::Next, Mutation::None, Buf::Ample, NonceSel::Auto);
                    }
                    if self.viol.len() > 64 {
                        break;
                    }
                }
            },
            Op::Epilogue => {
                self.epilogue = true;
            },
        }
    }

    /// The library's own key generation, driven through the node's resolver and RNG seam.
    fn op_keygen(&mut self, i: usize) {
        if i >= self.nodes.len() {
            return;
        }
        let nc = self.cfg.nodes[i].clone();
        let rng = self.nodes[i].rng.clone();
        self.call_id += 1;
        rng.begin_call(self.call_id, mix(i as u64, 0x4B47));
        let proto = match Proto::parse(&nc.name) {
            Ok(p) => p,
            Err(_) => {
                // a name only snow can parse (e.g. a DH nobody implements): key generation must
                // answer with a key pair or an error, not a panic
                let r = guarded(|| -> Result<usize, Error> {
                    let params: snow::params::NoiseParams = nc.name.parse()?;
                    let resolver = SimResolver::new(nc.backend, rng.clone(), None, nc.deny).with_deny_at(nc.deny_at);
                    Ok(Builder::with_resolver(params, Box::new(resolver)).generate_keypair()?.public.len())
                });
                match r {
                    Err(p) => self.flag(&["C10", "C12"], "panic", "keygen/unparsed-name", &format!("generate_keypair panicked: {p}")),
                    Ok(Err(e)) => self.render_err(&e),
                    Ok(Ok(_)) => {},
                }
                return;
            },
        };
        // RNG fault (as for ephemerals): the first draw is all zero - not a valid P-256 scalar;
        // the generated key pairs must still be usable
        if proto.dh == crate::refnoise::DhK::P256 && mix(nc.rng_seed, self.call_id) % 4 == 0 {
            rng.zero_next.store(true, std::sync::atomic::Ordering::Relaxed);
            self.stats.fault("rng-yields-invalid-scalar");
        }
        let r = guarded(|| -> Result<(snow::Keypair, snow::Keypair), Error> {
            let params: snow::params::NoiseParams = nc.name.parse()?;
            // the node's resolver faults apply to key generation too
            let resolver = SimResolver::new(nc.backend, rng.clone(), None, nc.deny).with_deny_at(nc.deny_at);
            let b = Builder::with_resolver(params, Box::new(resolver));
            let k1 = b.generate_keypair()?;
            let k2 = b.generate_keypair()?;
            Ok((k1, k2))
        });
        rng.zero_next.store(false, std::sync::atomic::Ordering::Relaxed);
        let site = format!("keygen/{}", proto.dh.name());
        match r {
            Err(p) => {
                self.flag(if nc.deny.is_some() { &["C10", "C12"] } else { &["C10"] }, "panic", &site, &format!("generate_keypair panicked: {p}"));
                self.stats.aborted_by_panic += 1;
            },
            Ok(Err(e)) => {
                self.render_err(&e);
                // with a resolver fault in force there may be nothing to generate from
                if nc.deny.is_none() {
                    self.flag(&["C02"], "keygen-fails", &site, &format!("{e:?}"));
                }
            },
            Ok(Ok((k1, k2))) => {
                self.stats.probe("keypairs-generated-by-snow");
                let drawn: usize = self.nodes[i].rng.drawn().iter().map(|d| d.len()).sum();
                for k in [&k1, &k2] {
                    let ok = k.private.len() == 32 && proto.dh.pubkey(&k.private).map_or(false, |p| p == k.public);
                    if !ok {
                        self.flag(&["C02", "C01"], "keygen-inconsistent", &site, &format!("public key (len {}) is not the public key of the private key (len {})", k.public.len(), k.private.len()));
                    }
                }
                if k1.private == k2.private {
                    self.flag(&["C02", "C06"], "keygen-repeats", &site, "two generated key pairs are identical");
                }
                if drawn < 64 {
                    self.flag(&["C06"], "keygen-not-from-resolver-rng", &site, &format!("{drawn} bytes drawn from the resolver's random source for two key pairs"));
                }
                self.trace.write(&k1.public);
            },
        }
    }

    fn take(&mut self, i: usize) -> Node {
        std::mem::replace(
            &mut self.nodes[i],
            Node {
                st: St::Gone("taken"),
                proto: None,
                shadow: None,
                trm: None,
                rng: RngShared::new(0, RngMode::Stream),
                model_rs: None,
                rs_suspended: false,
                rs_allowed: vec![],
                sl_next: 0,
                written: vec![],
                send_tainted: false,
            rekeyed: false,
                had_error: false,
                build_result: String::new(),
                ok_writes: 0,
                ok_reads: 0,
                final_hash: None,
            },
        )
    }
    fn put(&mut self, i: usize, n: Node) {
        self.nodes[i] = n;
    }

    fn record_result(&mut self, what: &str, phase: &str, r: &Result<usize, Error>) {
        if let Err(e) = r {
            let s = self.cur_node / 2;
            if s < self.errs.len() {
                self.errs[s] += 1;
                if *e != Error::State(StateProblem::MissingPsk) {
                    self.errs_hard[s] += 1;
                }
            }
        }
        let code = match r {
            Ok(n) => {
                self.trace.write_u64(*n as u64);
                self.class_trace.write_u64(*n as u64);
                "ok".to_string()
            },
            Err(e) => {
                self.trace.write_u64(1_000_000 + ecode(e) as u64);
                self.class_trace.write_u64(1_000_000);
                // every error a call returns is also rendered the way an application would log it
                if let Err(p) = guarded(|| format!("{e}").len()) {
                    self.flag(&["C10"], "panic", &format!("error-display/{e:?}"), &p);
                }
                format!("{e:?}")
            },
        };
        let key = format!("{phase}-{what}:{code}");
        if self.keep_outcomes {
            self.outcomes.push((self.op_index, key.clone()));
        }
        self.abstract_trace.write(key.as_bytes());
        *self.stats.results.entry(key).or_insert(0) += 1;
    }

    // ------------------------------------------------------------------------------------ write

    fn op_write(&mut self, i: usize, plen: u32, pseed: u32, buf: Buf, nonce: NonceSel) {
        if i >= self.nodes.len() {
            return;
        }
        self.cur_node = i;
        let mut node = self.take(i);
        let payload = seeded_bytes(mix(pseed as u64, 0x9A71), (plen as usize).min(70_000));
        match node.st.phase() {
            "hs" => self.hs_write(i, &mut node, &payload, buf),
            "tr" | "sl" => self.tr_write(i, &mut node, &payload, buf, nonce),
            _ => {},
        }
        self.put(i, node);
    }

    fn hs_write(&mut self, i: usize, node: &mut Node, payload: &[u8], buf: Buf) {
        let shadow = match &node.shadow {
            Some(s) => s.clone(),
            None => {
                let buflen = match buf {
                    Buf::Abs(n) => n as usize,
                    _ => payload.len() + 300,
                };
                self.blind_hs_call(node, true, payload, buflen);
                return;
            },
        };
        let site = self.site_hs(node, "hs-write");
        let fields = shadow.field_map(payload.len());
        let predicted: usize = fields.iter().map(|f| f.len).sum();
        let buflen = Self::resolve_buf(buf, predicted, &fields).min(80_000);
        let payload_enc = fields.iter().any(|f| f.kind == FieldKind::PayloadTag);
        // expectation from the model
        let mut whys: Vec<Why> = vec![];
        if shadow.finished() {
            whys.push(Why::Finished);
        } else if !shadow.my_turn() {
            whys.push(Why::Turn);
        }
        let state_ok = whys.is_empty();
        if state_ok {
            if !shadow.psks_present_for_next() {
                whys.push(Why::MissingPsk);
            }
            if predicted > MAXMSG {
                whys.push(Why::Oversize);
            }
            if buflen < predicted {
                whys.push(Why::ShortBuf);
            }
        } else {
            // an out-of-phase call whose arguments are also unusable has two independent,
            // documented causes of failure; either error may be reported
            if payload.len() + TAGLEN > MAXMSG {
                whys.push(Why::Oversize);
            }
            if buflen < payload.len() + TAGLEN {
                whys.push(Why::ShortBuf);
            }
        }
        let dontcare = state_ok && !payload_enc && buflen >= predicted && buflen < predicted + TAGLEN;
        if !whys.is_empty() || dontcare {
            self.faults_in_run += 1;
            for w in &whys {
                self.stats.fault(match w {
                    Why::Turn => {
                        self.misuse[i / 2] = true;
                        "out-of-turn-write"
                    },
                    Why::Finished => {
                        self.misuse[i / 2] = true;
                        "write-after-finish"
                    },
                    Why::MissingPsk => "missing-psk",
                    Why::Oversize => "oversize-payload",
                    Why::ShortBuf => "undersized-output-buffer",
                    _ => "other",
                });
            }
            if dontcare {
                self.stats.probe("write-buffer-in-spare-tag-window");
            }
        }
        let hs = match &mut node.st {
            St::Hs(h) => h,
            _ => return,
        };
        let before = Self::observers_hs(hs);
        let mut out = prefill(buflen, self.call_id + 1);
        let pre = out.clone();
        let ctx = mix(i as u64, shadow.idx as u64);
        self.begin_call(node, ctx);
        // RNG fault: once in a while the random source hands out an unusable value (all zero),
        // which is not a valid P-256 scalar - key generation has to cope with it
        if shadow.proto.dh == crate::refnoise::DhK::P256 && self.cfg.rng_mode == RngMode::Stream && mix(self.cfg.nodes[i].rng_seed, self.call_id) % 64 == 0 {
            node.rng.zero_next.store(true, std::sync::atomic::Ordering::Relaxed);
            self.stats.fault("rng-yields-invalid-scalar");
        }
        let hs = match &mut node.st {
            St::Hs(h) => h,
            _ => return,
        };
        let res = guarded(|| hs.write_message(payload, &mut out));
        node.rng.zero_next.store(false, std::sync::atomic::Ordering::Relaxed);
        let res = match res {
            Err(p) => {
                let bsite = format!("{site}/buf{}", boundary_class(buflen, &fields, predicted));
                let props: &[&str] = if buflen < predicted + TAGLEN || predicted > MAXMSG { &["C10", "C14"] } else { &["C10"] };
                self.flag(props, "panic", &bsite, &format!("write_message panicked: {p}; buf={buflen} predicted={predicted}"));
                self.stats.aborted_by_panic += 1;
                node.st = St::Gone("panic");
                self.drain_cipher_log(i, &site, false);
                return;
            },
            Ok(r) => r,
        };
        self.record_result("write", "hs", &res);
        self.drain_cipher_log(i, &site, false);
        let drawn: Vec<u8> = node.rng.drawn().concat();
        let hs = match &node.st {
            St::Hs(h) => h,
            _ => return,
        };
        let after = Self::observers_hs(hs);
        let enc_flag = hs.was_write_payload_encrypted();
        match res {
            Ok(n) => {
                self.trace.write(&out[..n.min(out.len())]);
                if !whys.is_empty() {
                    let props: Vec<&str> = whys
                        .iter()
                        .flat_map(|w| match w {
                            Why::Turn | Why::Finished => vec!["C11"],
                            Why::MissingPsk => vec!["C12"],
                            Why::Oversize | Why::ShortBuf => vec!["C14"],
                            _ => vec![],
                        })
                        .collect();
                    self.flag(&props, "write-ok-but-must-fail", &site, &format!("{whys:?} buf={buflen} predicted={predicted} returned {n}"));
                    // the model cannot follow an illegal success
                    node.shadow = None;
                    return;
                }
                // length / framing
                if n != predicted || n > MAXMSG || n > buflen {
                    self.flag(&["C14", "C01"], "write-length", &site, &format!("returned {n}, predicted {predicted}, buf {buflen}"));
                }
                // what a write leaves beyond the returned length is not covered by any property
                // (a library may, e.g., zero the rest of the caller's buffer); counted only
                if n <= out.len() && out[n..] != pre[n..] {
                    self.stats.probe("write-touched-buffer-beyond-returned-length");
                }
                // ephemeral freshness (C06 clause 2)
                let has_e = shadow.next_has_e();
                let mut model = shadow.clone();
                let eph = if has_e {
                    if drawn.len() < 32 {
                        self.flag(&["C06"], "ephemeral-not-drawn-in-call", &site, &format!("{} random bytes drawn during a write with an 'e' token", drawn.len()));
                        None
                    } else {
                        // the private key is among the bytes drawn in this call: normally the
                        // first 32; a backend that redraws (e.g. rejection sampling) uses a later
                        // 32-byte chunk - take the chunk whose public key is the one in the message
                        let pl = shadow.proto.pub_len();
                        let mut pick = drawn[..32].to_vec();
                        if n >= pl && drawn.len() >= 64 {
                            let first_ok = shadow.proto.dh.pubkey(&pick).map_or(false, |p| p[..] == out[..pl]);
                            if !first_ok {
                                for c in drawn.chunks_exact(32).skip(1) {
                                    if shadow.proto.dh.pubkey(c).map_or(false, |p| p[..] == out[..pl]) {
                                        pick = c.to_vec();
                                        break;
                                    }
                                }
                            }
                        }
                        Some(pick)
                    }
                } else {
                    None
                };
                if has_e && n >= shadow.proto.pub_len() {
                    let epub = out[..shadow.proto.pub_len()].to_vec();
                    if !self.ephemerals.insert(epub) {
                        self.flag(&["C06"], "ephemeral-reused", &site, "the same ephemeral public key was placed in two messages");
                    }
                }
                if has_e && eph.is_none() {
                    node.shadow = None;
                    return;
                }
                match model.write(payload, eph.as_deref()) {
                    Ok(mbytes) => {
                        if mbytes[..] != out[..n.min(out.len())] {
                            let fdiff = first_diff_field(&mbytes, &out[..n.min(out.len())], &fields);
                            if has_e && drawn.len() >= 32 && mbytes.len() >= 32 && out.len() >= 32 && mbytes[..shadow.proto.pub_len().min(mbytes.len())] != out[..shadow.proto.pub_len().min(out.len())] {
                                self.flag(&["C06", "C01"], "ephemeral-not-from-rng", &site, "ephemeral public key in the message is not derived from the bytes drawn during the call");
                            } else {
                                let mut props = vec!["C01", "C07", "C20"];
                                if self.misuse[i / 2] {
                                    props.push("C11");
                                }
                                self.flag(&props, "write-bytes-differ-from-model", &format!("{site}/{fdiff}"), &format!("name={} len={n}", shadow.proto.name));
                            }
                        }
                        if enc_flag != model_payload_enc(&fields) {
                            self.flag(&["C01"], "encrypted-flag", &site, &format!("was_write_payload_encrypted={enc_flag}"));
                        }
                        let hidx = self.history.len();
                        self.history.push(Msg {
                            from: i as u8,
                            phase: Phase::Hs { idx: shadow.idx },
                            bytes: out[..n.min(out.len())].to_vec(),
                            payload: payload.to_vec(),
                            fields: fields.clone(),
                            s_plain: if fields.iter().any(|f| f.kind == FieldKind::STag) { shadow.s.as_ref().map(|k| k.pubk.clone()) } else { None },
                        });
                        node.written.push(hidx);
                        if Self::peer(i) < self.inbox.len() {
                            self.inbox[Self::peer(i)].push_back(hidx);
                        }
                        self.wire.push(WireEv { node: i as u8, write: true, bytes: out[..n.min(out.len())].to_vec() });
                        if after.3 != model.h {
                            self.flag(&["C01"], "handshake-hash-differs-from-model", &site, if model.finished() { "final" } else { "intermediate" });
                        }
                        let (nl, hl) = (shadow.proto.name.len(), shadow.proto.hash.hash_len());
                        if nl == hl {
                            self.stats.probe(if hl == 64 { "name-len-eq-hashlen-64" } else { "name-len-eq-hashlen-32" });
                        } else if nl == hl + 1 {
                            self.stats.probe(if hl == 64 { "name-len-eq-hashlen-64-plus-1" } else { "name-len-eq-hashlen-32-plus-1" });
                        } else if nl > hl {
                            self.stats.probe("name-len-gt-hashlen");
                        }
                        node.shadow = Some(model);
                        node.ok_writes += 1;
                    },
                    Err(e) => {
                        // model says this write cannot succeed (e.g. invalid DH input)
                        self.flag(&["C01", "C03"], "write-ok-but-model-fails", &site, &format!("{e:?}"));
                        node.shadow = None;
                    },
                }
            },
            Err(e) => {
                let prev_err = node.had_error;
                node.had_error = true;
                if before != after {
                    self.flag(&["C07", "C11"], "observables-changed-by-failed-write", &site, &format!("{e:?}: before (turn,fin)=({},{}) after=({},{}) hash_changed={}", before.0, before.1, after.0, after.1, before.3 != after.3));
                }
                if whys.is_empty() && !dontcare {
                    // maybe a DH failure the model also sees
                    let mut model = shadow.clone();
                    let dummy = [7u8; 32];
                    let eph: Option<&[u8]> = if drawn.len() >= 32 { Some(&drawn[..32]) } else { Some(&dummy) };
                    match model.write(payload, eph) {
                        Err(RefErr::Dh) => {
                            self.stats.fault("dh-failure");
                        },
                        _ => {
                            let mut props = vec!["C02", "C14", "C01"];
                            if prev_err {
                                props.push("C07");
                            }
                            if matches!(e, Error::State(StateProblem::MissingPsk) | Error::State(StateProblem::MissingKeyMaterial)) {
                                props.push("C12");
                            }
                            if self.misuse[i / 2] {
                                props.push("C11");
                            }
                            self.flag(&props, "write-fails-but-must-succeed", &site, &format!("{e:?} buf={buflen} predicted={predicted} payload={}", payload.len()));
                        },
                    }
                } else {
                    // pinned variants for single causes
                    if whys.len() == 1 {
                        match whys[0] {
                            Why::Turn => {
                                if e != Error::State(StateProblem::NotTurnToWrite) {
                                    self.flag(&["C11"], "wrong-state-error", &site, &format!("out-of-turn write returned {e:?}"));
                                }
                            },
                            Why::Finished => {
                                if !matches!(e, Error::State(StateProblem::NotTurnToWrite) | Error::State(StateProblem::HandshakeAlreadyFinished)) {
                                    self.flag(&["C11"], "wrong-state-error", &site, &format!("write after finish returned {e:?}"));
                                }
                            },
                            Why::Oversize | Why::ShortBuf => {
                                if e != Error::Input {
                                    // a DH input the model also rejects is a second, independent cause
                                    let mut model = shadow.clone();
                                    let dummy = [7u8; 32];
                                    let dh_fails = e == Error::Dh && matches!(model.write(payload, Some(&dummy)), Err(RefErr::Dh));
                                    if !dh_fails {
                                        self.flag(&["C14"], "wrong-input-error", &site, &format!("size problem returned {e:?}"));
                                    }
                                }
                            },
                            _ => {},
                        }
                    }
                }
            },
        }
        self.post_checks(i, node, "after-write");
    }

    fn tr_write(&mut self, i: usize, node: &mut Node, payload: &[u8], buf: Buf, nonce: NonceSel) {
        let trm = match &node.trm {
            Some(t) => t.clone(),
            None => return,
        };
        let stateless = matches!(node.st, St::Sl(_));
        let site = format!("{}-write/{}", node.st.phase(), trm.cipher.name());
        let predicted = payload.len() + TAGLEN;
        let fields = vec![
            Field { kind: FieldKind::Payload, off: 0, len: payload.len(), encrypted: true },
            Field { kind: FieldKind::PayloadTag, off: payload.len(), len: TAGLEN, encrypted: true },
        ];
        let buflen = Self::resolve_buf(buf, predicted, &fields).min(80_000);
        let dir = trm.send_dir();
        let (n_used, explicit) = if stateless {
            match nonce {
                NonceSel::Auto => (node.sl_next, false),
                NonceSel::At(v) => (v, true),
            }
        } else {
            (trm.nonces[dir], false)
        };
        let mut whys = vec![];
        if trm.oneway && !trm.initiator {
            whys.push(Why::OneWay);
        }
        if predicted > MAXMSG {
            whys.push(Why::Oversize);
        }
        if buflen < predicted {
            whys.push(Why::ShortBuf);
        }
        if n_used == u64::MAX {
            whys.push(Why::Exhausted);
        }
        if !whys.is_empty() {
            self.faults_in_run += 1;
            for w in &whys {
                self.stats.fault(match w {
                    Why::OneWay => "one-way-violation",
                    Why::Oversize => "oversize-payload",
                    Why::ShortBuf => "undersized-output-buffer",
                    Why::Exhausted => "nonce-exhausted",
                    _ => "other",
                });
            }
        }
        if n_used == u64::MAX - 1 {
            self.stats.probe("write-at-nonce-2^64-2");
        }
        let mut out = prefill(buflen, self.call_id + 1);
        let pre = out.clone();
        self.begin_call(node, 0);
        self.harness_nonce_call = explicit;
        let before = match &node.st {
            St::Tr(t) => Some((t.sending_nonce(), t.receiving_nonce())),
            _ => None,
        };
        let res = match &mut node.st {
            St::Tr(t) => guarded(|| t.write_message(payload, &mut out)),
            St::Sl(t) => guarded(|| t.write_message(n_used, payload, &mut out)),
            _ => return,
        };
        let res = match res {
            Err(p) => {
                let props: &[&str] = if buflen < predicted + TAGLEN || predicted > MAXMSG { &["C10", "C14"] } else { &["C10"] };
                self.flag(props, "panic", &format!("{site}/buf{}", boundary_class(buflen, &fields, predicted)), &format!("transport write panicked: {p}"));
                self.stats.aborted_by_panic += 1;
                node.st = St::Gone("panic");
                self.harness_nonce_call = false;
                return;
            },
            Ok(r) => r,
        };
        self.record_result("write", node.st.phase(), &res);
        self.drain_cipher_log(i, &site, node.send_tainted);
        self.harness_nonce_call = false;
        let after = match &node.st {
            St::Tr(t) => Some((t.sending_nonce(), t.receiving_nonce())),
            _ => None,
        };
        match res {
            Ok(n) => {
                self.trace.write(&out[..n.min(out.len())]);
                if !whys.is_empty() {
                    let props: Vec<&str> = whys
                        .iter()
                        .flat_map(|w| match w {
                            Why::OneWay => vec!["C11"],
                            Why::Oversize | Why::ShortBuf => vec!["C14"],
                            Why::Exhausted => vec!["C09"],
                            _ => vec![],
                        })
                        .collect();
                    self.flag(&props, "write-ok-but-must-fail", &site, &format!("{whys:?} nonce={n_used} returned {n}"));
                    // keep the model in step with what snow evidently did, as far as possible
                    if let (Some(a), Some(t)) = (after, node.trm.as_mut()) {
                        t.nonces[dir] = a.0;
                    }
                    return;
                }
                if n != predicted || n > buflen {
                    self.flag(&["C14", "C01"], "write-length", &site, &format!("returned {n} predicted {predicted}"));
                }
                if n <= out.len() && out[n..] != pre[n..] {
                    self.stats.probe("write-touched-buffer-beyond-returned-length");
                }
                let mbytes = trm.encrypt_at(dir, n_used, payload);
                if mbytes[..] != out[..n.min(out.len())] {
                    let props: &[&str] = if stateless { &["C01", "C16", "C15", "C20"] } else { &["C01", "C15", "C20", "C16"] };
                    self.flag(props, "transport-bytes-differ-from-model", &site, &format!("nonce={n_used} len={n}"));
                }
                if let (Some(b), Some(a)) = (before, after) {
                    if a.0 != b.0.wrapping_add(1) || a.1 != b.1 {
                        self.flag(&["C09"], "nonce-step", &site, &format!("sending nonce {} -> {}, receiving {} -> {}", b.0, a.0, b.1, a.1));
                    }
                }
                let t = node.trm.as_mut().unwrap();
                if stateless {
                    if !explicit {
                        node.sl_next += 1;
                    }
                } else {
                    t.nonces[dir] += 1;
                }
                let hidx = self.history.len();
                self.history.push(Msg {
                    from: i as u8,
                    phase: Phase::Tr { nonce: n_used },
                    bytes: out[..n.min(out.len())].to_vec(),
                    payload: payload.to_vec(),
                    fields,
                    s_plain: None,
                });
                node.written.push(hidx);
                if Self::peer(i) < self.inbox.len() {
                    self.inbox[Self::peer(i)].push_back(hidx);
                }
                self.wire.push(WireEv { node: i as u8, write: true, bytes: out[..n.min(out.len())].to_vec() });
                node.ok_writes += 1;
            },
            Err(e) => {
                node.had_error = true;
                if before != after {
                    self.flag(&["C07", "C09"], "nonces-changed-by-failed-write", &site, &format!("{e:?} {before:?} -> {after:?}"));
                }
                if whys.is_empty() {
                    let mut props = vec!["C02", "C14", "C16", "C07"];
                    if node.rekeyed {
                        props.push("C15");
                    }
                    self.flag(&props, "write-fails-but-must-succeed", &site, &format!("{e:?} nonce={n_used} buf={buflen}"));
                } else {
                    // "produces no message": the buffer must not hold the message that encrypting
                    // under the reserved nonce would have produced (what else a failed call leaves
                    // in the caller's buffer is unspecified)
                    if whys.contains(&Why::Exhausted) && out != pre {
                        let would_be = trm.encrypt_at(dir, n_used, payload);
                        let l = would_be.len().min(out.len());
                        if l >= 16 && out[..l] == would_be[..l] {
                            self.flag(&["C09"], "output-produced-at-exhaustion", &site, "the caller's buffer holds the message encrypted under nonce 2^64-1");
                        }
                    }
                    if whys.len() == 1 {
                        let want = match whys[0] {
                            Why::OneWay => Some(Error::State(StateProblem::OneWay)),
                            Why::Oversize | Why::ShortBuf => Some(Error::Input),
                            Why::Exhausted => Some(Error::State(StateProblem::Exhausted)),
                            _ => None,
                        };
                        if let Some(w) = want {
                            if e != w {
                                let props: &[&str] = match whys[0] {
                                    Why::OneWay => &["C11"],
                                    Why::Exhausted => &["C09"],
                                    _ => &["C14"],
                                };
                                self.flag(props, "wrong-error-variant", &site, &format!("expected {w:?} got {e:?}"));
                            }
                        }
                    }
                }
            },
        }
        self.post_checks(i, node, "after-write");
    }

    // ------------------------------------------------------------------------------------- read

    fn op_read(&mut self, i: usize, src: Src, mutation: Mutation, out: Buf, nonce: NonceSel) {
        if i >= self.nodes.len() {
            return;
        }
        let (orig_bytes, meta, srckind) = match self.fetch(i, src) {
            Some(x) => x,
            None => return,
        };
        let (bytes, mkind) = match &meta {
            Some(m) => Self::apply_mutation(mutation, m),
            None => (orig_bytes.clone(), "none"),
        };
        let altered = bytes != orig_bytes;
        if altered {
            self.stats.fault(match mkind {
                "bitflip" => "alteration-bitflip",
                "truncate" => "alteration-truncate",
                "extend" => "alteration-extend",
                "multiedit" => "alteration-multiedit",
                "setfield" => "alteration-field-overwrite",
                "byteset" => "alteration-byteset",
                _ => "alteration",
            });
            self.faults_in_run += 1;
        }
        match srckind {
            "reorder" => self.stats.fault("reordering"),
            "reflection" => self.stats.fault("reflection"),
            "replay" => self.stats.fault("replay-or-substitution-same-session"),
            "cross-session" => self.stats.fault("substitution-cross-session"),
            "garbage" => self.stats.fault("garbage-injection"),
            "forged-by-keyholder" => self.stats.fault("authentic-message-from-nonconforming-peer"),
            _ => {},
        }
        if !matches!(srckind, "inorder" | "peek") {
            self.faults_in_run += 1;
        }
        if bytes.len() > MAXMSG {
            self.stats.fault("oversize-message");
        }
        self.cur_node = i;
        let mut node = self.take(i);
        let errs_before = self.errs[i / 2];
        let reads_before = node.ok_reads;
        match node.st.phase() {
            "hs" => self.hs_read(i, &mut node, &bytes, meta.as_ref(), altered, srckind, mkind, out),
            "tr" | "sl" => self.tr_read(i, &mut node, &bytes, meta.as_ref(), altered, srckind, out, nonce),
            _ => {},
        }
        // a message presented without being taken out of flight leaves the network once it has
        // been delivered successfully (a retransmission is only pending while delivery fails)
        if let Some(hi) = self.peeked.take() {
            if self.errs[i / 2] == errs_before && node.ok_reads > reads_before {
                if let Some(pos) = self.inbox[i].iter().position(|x| *x == hi) {
                    self.inbox[i].remove(pos);
                }
            }
        }
        self.put(i, node);
    }

    #[allow(clippy::too_many_arguments)]
    fn hs_read(
        &mut self,
        i: usize,
        node: &mut Node,
        bytes: &[u8],
        meta: Option<&Msg>,
        altered: bool,
        srckind: &str,
        mkind: &str,
        outspec: Buf,
    ) {
        let shadow = match &node.shadow {
            Some(s) => s.clone(),
            None => {
                let outlen = match outspec {
                    Buf::Abs(n) => n as usize,
                    _ => bytes.len() + 16,
                };
                self.blind_hs_call(node, false, bytes, outlen);
                return;
            },
        };
        let site = self.site_hs(node, "hs-read");
        let mut whys = vec![];
        if bytes.len() > MAXMSG {
            whys.push(Why::Oversize);
        }
        if shadow.finished() {
            whys.push(Why::Finished);
        } else if shadow.my_turn() {
            whys.push(Why::Turn);
        }
        let state_ok = !shadow.finished() && !shadow.my_turn();
        let mut model = shadow.clone();
        let mut mres: Option<Result<Vec<u8>, RefErr>> = None;
        if state_ok && bytes.len() <= MAXMSG {
            let r = model.read(bytes);
            match &r {
                Err(RefErr::MissingPsk) => whys.push(Why::MissingPsk),
                Err(RefErr::Dh) => whys.push(Why::Dh),
                Err(_) => whys.push(Why::Crypto),
                Ok(_) => {},
            }
            if !matches!(r, Err(RefErr::MissingPsk)) {
                mres = Some(r);
            }
        }
        let overhead = shadow.overhead();
        let needed = match &mres {
            Some(Ok(p)) => p.len(),
            _ => bytes.len().saturating_sub(overhead),
        };
        let mfields = meta.map(|m| m.fields.clone()).unwrap_or_default();
        let outlen = Self::resolve_buf(outspec, needed, &mfields).min(80_000);
        if let Some(Ok(p)) = &mres {
            if outlen < p.len() {
                whys.push(Why::ShortOut);
                self.stats.fault("undersized-payload-buffer");
                self.faults_in_run += 1;
            }
        }
        for w in &whys {
            match w {
                Why::Turn => {
                    self.misuse[i / 2] = true;
                    self.stats.fault("out-of-turn-read")
                },
                Why::Finished => {
                    self.misuse[i / 2] = true;
                    self.stats.fault("read-after-finish")
                },
                Why::MissingPsk => self.stats.fault("missing-psk"),
                _ => {},
            }
        }
        if !whys.is_empty() {
            self.faults_in_run += 1;
        }
        let hs = match &mut node.st {
            St::Hs(h) => h,
            _ => return,
        };
        let before = Self::observers_hs(hs);
        let mut out = prefill(outlen, self.call_id + 1);
        self.begin_call(node, mix(i as u64, shadow.idx as u64));
        let hs = match &mut node.st {
            St::Hs(h) => h,
            _ => return,
        };
        let res = guarded(|| hs.read_message(bytes, &mut out));
        let res = match res {
            Err(p) => {
                let cls = if meta.is_some() { format!("{srckind}-{mkind}") } else { "garbage".into() };
                let props: &[&str] = if bytes.len() < overhead || bytes.len() > MAXMSG || outlen < needed { &["C10", "C14"] } else { &["C10"] };
                self.flag(props, "panic", &format!("{site}/{cls}"), &format!("read_message panicked: {p}; len={} out={outlen}", bytes.len()));
                self.stats.aborted_by_panic += 1;
                node.st = St::Gone("panic");
                return;
            },
            Ok(r) => r,
        };
        self.record_result("read", "hs", &res);
        self.drain_cipher_log(i, &site, false);
        let hs = match &node.st {
            St::Hs(h) => h,
            _ => return,
        };
        let after = Self::observers_hs(hs);
        // was an encrypted field of a genuine message touched? (C03 clause b)
        let touched_encrypted = match meta {
            Some(m) if altered && matches!(m.phase, Phase::Hs { idx } if idx == shadow.idx) && m.from as usize == Self::peer(i) => {
                touches_encrypted(&m.bytes, bytes, &m.fields)
            },
            _ => false,
        };
        match res {
            Ok(n) => {
                self.trace.write(&out[..n.min(out.len())]);
                if !whys.is_empty() {
                    let mut props: Vec<&str> = vec![];
                    for w in &whys {
                        match w {
                            Why::Turn | Why::Finished => props.push("C11"),
                            Why::Oversize => props.push("C14"),
                            Why::MissingPsk => props.push("C12"),
                            Why::Crypto | Why::Dh => {
                                props.extend_from_slice(&["C03", "C08", "C01"]);
                            },
                            Why::ShortOut => props.push("C14"),
                            _ => {},
                        }
                    }
                    props.sort();
                    props.dedup();
                    let fsite = match meta {
                        Some(m) if altered => format!("{site}/{}", first_diff_field(&m.bytes, bytes, &m.fields)),
                        _ => format!("{site}/{srckind}"),
                    };
                    self.flag(&props, "read-ok-but-must-fail", &fsite, &format!("{whys:?} len={} returned {n} src={srckind} mut={mkind} encrypted-field-touched={touched_encrypted}", bytes.len()));
                    if state_ok {
                        // snow advanced; the model cannot follow
                        node.shadow = None;
                        self.post_checks(i, node, "after-read");
                    }
                    return;
                }
                let mp = match mres {
                    Some(Ok(p)) => p,
                    _ => return,
                };
                if n != mp.len() {
                    self.flag(&["C14", "C02"], "read-length", &site, &format!("returned {n}, model payload {}", mp.len()));
                }
                if n <= out.len() && out[..n] != mp[..n.min(mp.len())] {
                    self.flag(&["C02", "C01", "C03"], "read-payload-differs", &site, "payload returned differs from the model's");
                }
                self.wire.push(WireEv { node: i as u8, write: false, bytes: out[..n.min(out.len())].to_vec() });
                if after.3 != model.h {
                    self.flag(&["C01", "C02"], "handshake-hash-differs-from-model", &site, if model.finished() { "final" } else { "intermediate" });
                }
                let genuine_next = match meta {
                    Some(m) => !altered && m.from as usize == Self::peer(i) && matches!(m.phase, Phase::Hs { idx } if idx == shadow.idx),
                    None => false,
                };
                if !genuine_next && self.tamper_accepted[i / 2].is_none() {
                    let how = format!(
                        "{}/{}-{}",
                        if shadow.proto.is_oneway() { "oneway" } else { "interactive" },
                        srckind,
                        mkind
                    );
                    self.tamper_accepted[i / 2] = Some((self.errs[i / 2], how));
                    self.stats.probe("non-genuine-handshake-message-accepted-by-read");
                }
                if shadow.next_has_s() {
                    node.rs_suspended = false;
                }
                node.shadow = Some(model);
                node.ok_reads += 1;
                if node.had_error {
                    self.stats.probe("success-after-earlier-failure");
                }
            },
            Err(e) => {
                let prev_err = node.had_error;
                node.had_error = true;
                if before != after {
                    self.flag(&["C07", "C11"], "observables-changed-by-failed-read", &site, &format!("{e:?}: turn {}->{} fin {}->{} hash_changed={}", before.0, after.0, before.1, after.1, before.3 != after.3));
                }
                if shadow.next_has_s() && state_ok {
                    // a failed read is a no-op: the reported key is what it was before the call
                    node.rs_allowed.clear();
                    node.rs_allowed.push(shadow.rs.clone());
                    node.rs_suspended = true;
                }
                // Only the genuine next message of an honest sender MUST be accepted. Anything else
                // the model would let through (an altered cleartext field, a replay that happens
                // to parse, a byzantine peer's off-curve key) may legally be rejected early.
                let must_accept = match meta {
                    Some(m) => {
                        !altered
                            && m.from as usize == Self::peer(i)
                            && matches!(m.phase, Phase::Hs { idx } if idx == shadow.idx)
                            && !self.cfg.nodes[m.from as usize].evil_static_pub
                    },
                    None => false,
                };
                if whys.is_empty() && !must_accept {
                    self.stats.probe("early-rejection-of-non-genuine-input");
                }
                if whys.is_empty() && must_accept {
                    // a genuine message that is (wrongly) refused must not leave its payload behind
                    if let Some(m) = meta {
                        if model_payload_enc(&m.fields) && leak_check(&out, &m.payload) {
                            self.flag(&["C19"], "plaintext-in-buffer-after-reject", &format!("hs/{}/{}/genuine-refused", shadow.proto.cipher.name(), backend_name(self.cfg.nodes[i].backend)), &format!("out={outlen} msg={} payload={}", bytes.len(), m.payload.len()));
                        }
                    }
                    let mut props = vec!["C02", "C01"];
                    if self.epilogue || prev_err {
                        props.extend_from_slice(&["C07", "C03"]);
                    }
                    if self.misuse[i / 2] {
                        props.push("C11");
                    }
                    if matches!(e, Error::State(StateProblem::MissingPsk) | Error::State(StateProblem::MissingKeyMaterial)) {
                        props.push("C12");
                    }
                    self.flag(&props, "read-fails-but-must-succeed", &site, &format!("{e:?} len={} out={outlen} src={srckind}", bytes.len()));
                } else {
                    if whys.len() == 1 {
                        match whys[0] {
                            Why::Turn => {
                                if e != Error::State(StateProblem::NotTurnToRead) {
                                    self.flag(&["C11"], "wrong-state-error", &site, &format!("out-of-turn read returned {e:?}"));
                                }
                            },
                            Why::Finished => {
                                if !matches!(e, Error::State(StateProblem::NotTurnToRead) | Error::State(StateProblem::HandshakeAlreadyFinished)) {
                                    self.flag(&["C11"], "wrong-state-error", &site, &format!("read after finish returned {e:?}"));
                                }
                            },
                            _ => {},
                        }
                    }
                    // C19: a message that failed authentication must not leave plaintext behind
                    if whys.contains(&Why::Crypto) {
                        if let Some(m) = meta {
                            let s_leak = m.s_plain.as_ref().map_or(false, |sp| out.len() >= sp.len() && out.windows(sp.len().min(32)).any(|w| w == &sp[..sp.len().min(32)]));
                            if s_leak {
                                self.flag(&["C19"], "static-key-plaintext-in-buffer-after-reject", &format!("hs/{}/{}", shadow.proto.cipher.name(), backend_name(self.cfg.nodes[i].backend)), &format!("out={outlen} msg={}", bytes.len()));
                            }
                            if model_payload_enc(&m.fields) && leak_check(&out, &m.payload) {
                                self.flag(&["C19"], "plaintext-in-buffer-after-reject", &format!("hs/{}/{}", shadow.proto.cipher.name(), backend_name(self.cfg.nodes[i].backend)), &format!("out={outlen} msg={} payload={}", bytes.len(), m.payload.len()));
                            } else if m.payload.len() >= 8 {
                                self.stats.probe("leak-check-performed");
                            }
                        }
                    }
                }
            },
        }
        self.post_checks(i, node, "after-read");
    }

    #[allow(clippy::too_many_arguments)]
    fn tr_read(
        &mut self,
        i: usize,
        node: &mut Node,
        bytes: &[u8],
        meta: Option<&Msg>,
        altered: bool,
        srckind: &str,
        outspec: Buf,
        nonce: NonceSel,
    ) {
        let trm = match &node.trm {
            Some(t) => t.clone(),
            None => return,
        };
        let stateless = matches!(node.st, St::Sl(_));
        let site = format!("{}-read/{}", node.st.phase(), trm.cipher.name());
        let dir = trm.recv_dir();
        let n_used = if stateless {
            match nonce {
                NonceSel::At(v) => v,
                NonceSel::Auto => match meta {
                    Some(Msg { phase: Phase::Tr { nonce }, .. }) => *nonce,
                    _ => 0,
                },
            }
        } else {
            trm.nonces[dir]
        };
        let mut whys = vec![];
        if bytes.len() > MAXMSG {
            whys.push(Why::Oversize);
        }
        if trm.oneway && trm.initiator {
            whys.push(Why::OneWay);
        }
        let mut mres: Option<Result<Vec<u8>, RefErr>> = None;
        if !whys.is_empty() {
            // independent argument faults next to an out-of-phase call: either error may be reported
            if bytes.len() < TAGLEN {
                whys.push(Why::Crypto);
            } else if n_used == u64::MAX {
                whys.push(Why::Exhausted);
            }
        }
        if whys.is_empty() {
            if bytes.len() < TAGLEN {
                whys.push(Why::Crypto);
            } else if n_used == u64::MAX {
                whys.push(Why::Exhausted);
            } else {
                let r = trm.decrypt_at(dir, n_used, bytes);
                if r.is_err() {
                    whys.push(Why::Crypto);
                }
                mres = Some(r);
            }
        }
        let needed = bytes.len().saturating_sub(TAGLEN);
        let mfields = meta.map(|m| m.fields.clone()).unwrap_or_default();
        let outlen = Self::resolve_buf(outspec, needed, &mfields).min(80_000);
        if bytes.len() >= TAGLEN && outlen < needed && bytes.len() <= MAXMSG && !(trm.oneway && trm.initiator) {
            if !whys.contains(&Why::ShortOut) {
                // with an undersized payload buffer the size check comes first
                whys.retain(|w| *w != Why::Exhausted);
                whys.push(Why::ShortOut);
                self.stats.fault("undersized-payload-buffer");
            }
        }
        // provenance cross-check of the model itself: if the model accepts, the bytes must be a
        // genuine message of the peer written at this nonce
        let genuine = match meta {
            Some(m) => {
                !altered
                    && m.from as usize == Self::peer(i)
                    && matches!(m.phase, Phase::Tr { nonce } if nonce == n_used)
            },
            None => false,
        };
        if !genuine && whys.is_empty() {
            // model accepted a non-genuine message: only legitimate when keys coincide by
            // construction (a duplicate write of identical payload at the same nonce)
            self.stats.probe("model-accepts-nonprovenance");
        }
        if !genuine {
            match meta {
                Some(m) if !altered && matches!(m.phase, Phase::Tr { .. }) && m.from as usize == Self::peer(i) => {
                    self.stats.fault("wrong-nonce-or-out-of-order");
                },
                _ => {},
            }
        }
        for w in &whys {
            match w {
                Why::OneWay => self.stats.fault("one-way-violation"),
                Why::Exhausted => self.stats.fault("nonce-exhausted"),
                _ => {},
            }
        }
        if !whys.is_empty() {
            self.faults_in_run += 1;
        }
        if n_used == u64::MAX - 1 {
            self.stats.probe("read-at-nonce-2^64-2");
        }
        let mut out = prefill(outlen, self.call_id + 1);
        self.begin_call(node, 0);
        let before = match &node.st {
            St::Tr(t) => Some((t.sending_nonce(), t.receiving_nonce())),
            _ => None,
        };
        let res = match &mut node.st {
            St::Tr(t) => guarded(|| t.read_message(bytes, &mut out)),
            St::Sl(t) => guarded(|| t.read_message(n_used, bytes, &mut out)),
            _ => return,
        };
        let res = match res {
            Err(p) => {
                let props: &[&str] = if bytes.len() < TAGLEN || bytes.len() > MAXMSG || outlen < needed { &["C10", "C14"] } else { &["C10"] };
                self.flag(props, "panic", &format!("{site}/{srckind}"), &format!("transport read panicked: {p}; len={} out={outlen}", bytes.len()));
                self.stats.aborted_by_panic += 1;
                node.st = St::Gone("panic");
                return;
            },
            Ok(r) => r,
        };
        self.record_result("read", node.st.phase(), &res);
        self.drain_cipher_log(i, &site, false);
        let after = match &node.st {
            St::Tr(t) => Some((t.sending_nonce(), t.receiving_nonce())),
            _ => None,
        };
        match res {
            Ok(n) => {
                self.trace.write(&out[..n.min(out.len())]);
                if !whys.is_empty() {
                    let mut props: Vec<&str> = vec![];
                    for w in &whys {
                        match w {
                            Why::OneWay => props.push("C11"),
                            Why::Oversize | Why::ShortOut => {
                                props.push("C14");
                                if altered {
                                    props.push("C04");
                                }
                            },
                            Why::Exhausted => props.extend_from_slice(&["C09", "C04", "C05"]),
                            Why::Crypto => props.extend_from_slice(&["C04", "C05", "C08", "C15", "C16"]),
                            _ => {},
                        }
                    }
                    props.sort();
                    props.dedup();
                    let how = if altered { "altered" } else { srckind };
                    self.flag(&props, "read-ok-but-must-fail", &format!("{site}/{how}"), &format!("{whys:?} nonce={n_used} len={} returned {n}", bytes.len()));
                    if let (Some(a), Some(t)) = (after, node.trm.as_mut()) {
                        t.nonces[dir] = a.1;
                    }
                    return;
                }
                let mp = match mres {
                    Some(Ok(p)) => p,
                    _ => return,
                };
                if n != mp.len() {
                    self.flag(&["C14", "C02"], "read-length", &site, &format!("returned {n}, model {}", mp.len()));
                }
                if n <= out.len() && out[..n] != mp[..n.min(mp.len())] {
                    self.flag(&["C02", "C04", "C16"], "read-payload-differs", &site, "payload differs from the model's");
                }
                if let (Some(b), Some(a)) = (before, after) {
                    if a.1 != b.1.wrapping_add(1) || a.0 != b.0 {
                        self.flag(&["C09", "C05"], "nonce-step", &site, &format!("receiving nonce {} -> {}, sending {} -> {}", b.1, a.1, b.0, a.0));
                    }
                }
                if !stateless {
                    node.trm.as_mut().unwrap().nonces[dir] += 1;
                }
                if self.cfg.mismatch && i < 2 {
                    self.flag(&["C08"], "transport-message-accepted-despite-context-mismatch", &self.cfg.stratum.clone(), "");
                }
                self.wire.push(WireEv { node: i as u8, write: false, bytes: out[..n.min(out.len())].to_vec() });
                node.ok_reads += 1;
                if node.had_error {
                    self.stats.probe("success-after-earlier-failure");
                }
            },
            Err(e) => {
                node.had_error = true;
                if before != after {
                    self.flag(&["C07", "C05", "C09"], "nonces-changed-by-failed-read", &site, &format!("{e:?} {before:?} -> {after:?}"));
                }
                if whys.is_empty() {
                    self.flag(&["C02", "C05", "C07", "C15", "C16", "C04"], "read-fails-but-must-succeed", &site, &format!("{e:?} nonce={n_used} len={} out={outlen} src={srckind}", bytes.len()));
                } else {
                    if whys.len() == 1 {
                        let want = match whys[0] {
                            Why::OneWay => Some(Error::State(StateProblem::OneWay)),
                            Why::Exhausted => Some(Error::State(StateProblem::Exhausted)),
                            _ => None,
                        };
                        if let Some(w) = want {
                            if e != w {
                                let props: &[&str] = if whys[0] == Why::OneWay { &["C11"] } else { &["C09"] };
                                self.flag(props, "wrong-error-variant", &site, &format!("expected {w:?} got {e:?}"));
                            }
                        }
                    }
                    if whys.contains(&Why::Crypto) {
                        if let Some(m) = meta {
                            if model_payload_enc(&m.fields) && leak_check(&out, &m.payload) {
                                self.flag(&["C19"], "plaintext-in-buffer-after-reject", &format!("{}/{}/{}", node.st.phase(), trm.cipher.name(), backend_name(self.cfg.nodes[i].backend)), &format!("out={outlen} msg={} payload={}", bytes.len(), m.payload.len()));
                            } else if m.payload.len() >= 8 {
                                self.stats.probe("leak-check-performed");
                                if outlen < bytes.len() {
                                    self.stats.probe("leak-check-out-smaller-than-message");
                                }
                            }
                        }
                    }
                }
            },
        }
        self.post_checks(i, node, "after-read");
    }

    // -------------------------------------------------------------------------------- other ops

    fn op_setpsk(&mut self, i: usize, idx: u64, kind: PskKind) {
        if i >= self.nodes.len() {
            return;
        }
        let mut node = self.take(i);
        let key: Vec<u8> = match kind {
            PskKind::Configured => self.cfg.nodes[i]
                .psks
                .iter()
                .find(|p| p.idx as u64 == idx)
                .map(|p| p.key.clone())
                .unwrap_or_else(|| seeded_bytes(mix(idx, 0x95C), 32)),
            PskKind::Wrong => seeded_bytes(mix(idx, 0xBAD5C), 32),
            PskKind::BadLen(l) => seeded_bytes(l as u64, l as usize),
        };
        if let St::Hs(hs) = &mut node.st {
            let before = Self::observers_hs(hs);
            let r = guarded(|| hs.set_psk(idx as usize, &key));
            match r {
                Err(p) => {
                    self.flag(&["C10"], "panic", &format!("set_psk/idx{}/len{}", idx.min(11), key.len().min(70_000)), &p);
                    self.stats.aborted_by_panic += 1;
                    node.st = St::Gone("panic");
                },
                Ok(r) => {
                    let expect_ok = key.len() == 32 && idx < 10;
                    self.trace.write_u64(r.is_ok() as u64);
                    if let Err(e) = &r {
                        self.render_err(e);
                    }
                    // a well-formed key for a slot the pattern uses, before the handshake is
                    // over, has to be taken: otherwise a PSK supplied late can never be used
                    // (what set_psk does with other argument combinations is not part of any
                    // property - C10 only demands Ok-or-Err)
                    let needed_slot = node.shadow.as_ref().map_or(false, |sh| !sh.finished() && idx < 10 && sh.proto.psk_mods.contains(&(idx as u8)));
                    if let (Err(e), true, true) = (&r, expect_ok, needed_slot) {
                        self.flag(&["C12", "C07", "C02"], "set_psk-refuses-valid-key", &format!("set_psk/{}", if key.iter().all(|b| *b == 0) { "zero-key" } else if key.iter().all(|b| *b == 0xFF) { "ff-key" } else { "key" }), &format!("{e:?} idx={idx}"));
                    }
                    if r.is_ok() && !expect_ok {
                        // accepted something outside the documented domain: legal for C10. For a
                        // key of the wrong length the model assumes the one plausible permissive
                        // reading (the first 32 bytes of a longer key; a shorter key padded with
                        // zeros) and carries on, so that the property-level checks (C08: parties
                        // that supplied different keys) still see the session; anything else
                        // leaves the model blind for this node
                        self.stats.probe("set_psk-accepted-unusual-arguments");
                        if idx < 10 {
                            if let Some(sh) = node.shadow.as_mut() {
                                let mut k = [0u8; 32];
                                let n = key.len().min(32);
                                k[..n].copy_from_slice(&key[..n]);
                                sh.psks[idx as usize] = Some(k);
                            }
                        } else {
                            node.shadow = None;
                        }
                    }
                    if r.is_ok() && expect_ok {
                        self.stats.probe("late-psk-set");
                        if let Some(sh) = node.shadow.as_mut() {
                            let mut k = [0u8; 32];
                            k.copy_from_slice(&key);
                            sh.psks[idx as usize] = Some(k);
                        }
                    } else {
                        self.stats.fault("bad-set-psk");
                    }
                    if let St::Hs(hs) = &node.st {
                        if Self::observers_hs(hs) != before {
                            self.flag(&["C11"], "observables-changed-by-set-psk", "set_psk", "");
                        }
                    }
                },
            }
        }
        self.post_checks(i, &mut node, "after-setpsk");
        self.put(i, node);
    }

    fn op_convert(&mut self, i: usize, stateless: bool) {
        if i >= self.nodes.len() {
            return;
        }
        let mut node = self.take(i);
        let st = std::mem::replace(&mut node.st, St::Gone("converted"));
        let hs = match st {
            St::Hs(h) => h,
            other => {
                node.st = other;
                self.put(i, node);
                return;
            },
        };
        let finished = node.shadow.as_ref().map(|s| s.finished());
        node.final_hash = Some(hs.get_handshake_hash().to_vec());
        let site = format!("convert/{}", if stateless { "stateless" } else { "stateful" });
        #[allow(unused_mut)]
        let mut hs = hs;
        // the raw split (feature risky-raw-split) is the specification's Split() of the final
        // chaining key; asking for it (also mid-handshake) must not disturb the session
        #[cfg(feature = "rawsplit")]
        if self.call_id % 3 == 0 {
            match guarded(|| hs.dangerously_get_raw_split()) {
                Err(p) => self.flag(&["C10"], "panic", "raw-split", &p),
                Ok((k1, k2)) => {
                    if let (Some(true), Some(Some((a, b)))) = (finished, node.shadow.as_ref().map(|s| s.split)) {
                        if k1 != a || k2 != b {
                            self.flag(&["C01"], "raw-split-differs-from-model", &site, "dangerously_get_raw_split() is not Split() of the final chaining key");
                        }
                    }
                },
            }
        }
        self.begin_call(&node, 0);
        // both public entry points: the into_* methods and the TryFrom impls
        let via_tryfrom = self.call_id % 2 == 0;
        let r = guarded(move || {
            use std::convert::TryFrom;
            match (stateless, via_tryfrom) {
                (true, false) => hs.into_stateless_transport_mode().map(|t| St::Sl(Box::new(t))),
                (true, true) => StatelessTransportState::try_from(*hs).map(|t| St::Sl(Box::new(t))),
                (false, false) => hs.into_transport_mode().map(|t| St::Tr(Box::new(t))),
                (false, true) => TransportState::try_from(*hs).map(|t| St::Tr(Box::new(t))),
            }
        });
        match r {
            Err(p) => {
                self.flag(&["C10"], "panic", &site, &p);
                self.stats.aborted_by_panic += 1;
                node.st = St::Gone("panic");
            },
            Ok(Ok(st)) => {
                self.trace.write_u64(1);
                if finished == Some(false) {
                    self.flag(&["C11"], "convert-ok-before-finish", &site, "entered transport mode before the last handshake message");
                    node.shadow = None;
                }
                node.st = st;
                if let Some(sh) = &node.shadow {
                    node.trm = RefTransport::from_hs(sh);
                    node.model_rs = sh.rs.clone();
                }
                self.stats.probe(if stateless { "converted-stateless" } else { "converted-stateful" });
                // nonces start at 0
                if let St::Tr(t) = &node.st {
                    if t.sending_nonce() != 0 || t.receiving_nonce() != 0 {
                        self.flag(&["C09"], "nonce-start", &site, "nonces do not start at 0");
                    }
                }
            },
            Ok(Err(e)) => {
                self.render_err(&e);
                self.trace.write_u64(2);
                self.stats.fault("early-conversion");
                self.faults_in_run += 1;
                if finished == Some(true) {
                    self.flag(&["C11", "C02"], "convert-fails-after-finish", &site, &format!("{e:?}"));
                } else if e != Error::State(StateProblem::HandshakeNotFinished) {
                    self.flag(&["C11"], "wrong-state-error", &site, &format!("early conversion returned {e:?}"));
                }
                node.st = St::Gone("convert-failed");
            },
        }
        self.post_checks(i, &mut node, "after-convert");
        self.put(i, node);
    }

    fn op_setnonce(&mut self, i: usize, v: u64, sending: bool) {
        if i >= self.nodes.len() {
            return;
        }
        // without the hook (second build) the sending counter cannot be placed: the op is void
        if sending && !cfg!(feature = "hooks") {
            return;
        }
        let mut node = self.take(i);
        if let St::Tr(t) = &mut node.st {
            let r = guarded(|| {
                if sending {
                    #[cfg(feature = "hooks")]
                    t.verif_set_sending_nonce(v);
                } else {
                    t.set_receiving_nonce(v);
                }
                (t.sending_nonce(), t.receiving_nonce())
            });
            match r {
                Err(p) => {
                    self.flag(&["C10"], "panic", "set-nonce", &p);
                    node.st = St::Gone("panic");
                },
                Ok((s, r)) => {
                    self.stats.fault(if sending { "explicit-sending-nonce(hook)" } else { "explicit-receiving-nonce" });
                    if v >= u64::MAX - 2 {
                        self.stats.probe("nonce-set-near-2^64");
                    }
                    if let Some(trm) = node.trm.as_mut() {
                        let d = if sending { trm.send_dir() } else { trm.recv_dir() };
                        if sending && v <= trm.nonces[d] && trm.nonces[d] > 0 {
                            node.send_tainted = true;
                        }
                        if sending && v < trm.nonces[d] {
                            node.send_tainted = true;
                        }
                        trm.nonces[d] = v;
                        let (ms, mr) = (trm.nonces[trm.send_dir()], trm.nonces[trm.recv_dir()]);
                        if (s, r) != (ms, mr) {
                            self.flag(&["C09", "C05"], "nonce-after-set", "set-nonce", &format!("snow ({s},{r}) model ({ms},{mr})"));
                        }
                    }
                },
            }
        }
        self.put(i, node);
    }

    /// Manual rekey values: ids 0-3 pseudo-random per (session, direction); 4 all zero; 5 all
    /// 0xFF; 6 one key for both directions; 7 the other direction's key 0 (any 32 bytes are a
    /// valid key).
    pub fn manual_key(session: usize, dir: usize, id: u8) -> [u8; 32] {
        match id {
            4 => return [0u8; 32],
            5 => return [0xFF; 32],
            6 => return Self::manual_key(session, 0, 3),
            7 => return Self::manual_key(session, 1 - dir.min(1), 0),
            _ => {},
        }
        let v = seeded_bytes(mix(mix(session as u64, dir as u64), 0x4E00 + id as u64), 32);
        let mut k = [0u8; 32];
        k.copy_from_slice(&v);
        k
    }

    fn op_rekey(&mut self, i: usize, which: RekeyKind) {
        if i >= self.nodes.len() {
            return;
        }
        let mut node = self.take(i);
        node.rekeyed = true;
        let session = i / 2;
        self.begin_call(&node, 0);
        let before = match &node.st {
            St::Tr(t) => Some((t.sending_nonce(), t.receiving_nonce())),
            _ => None,
        };
        let r = match &mut node.st {
            St::Tr(t) => Some(guarded(|| match which {
                RekeyKind::Outgoing => t.rekey_outgoing(),
                RekeyKind::Incoming => t.rekey_incoming(),
                RekeyKind::ManualI(id) if id % 2 == 0 => t.rekey_initiator_manually(&Self::manual_key(session, 0, id)),
                RekeyKind::ManualI(id) => t.rekey_manually(Some(&Self::manual_key(session, 0, id)), None),
                RekeyKind::ManualR(id) if id % 2 == 0 => t.rekey_responder_manually(&Self::manual_key(session, 1, id)),
                RekeyKind::ManualR(id) => t.rekey_manually(None, Some(&Self::manual_key(session, 1, id))),
                RekeyKind::ManualBoth(id) => t.rekey_manually(Some(&Self::manual_key(session, 0, id)), Some(&Self::manual_key(session, 1, id))),
                RekeyKind::ManualNone => t.rekey_manually(None, None),
            })),
            St::Sl(t) => Some(guarded(|| match which {
                RekeyKind::Outgoing => t.rekey_outgoing(),
                RekeyKind::Incoming => t.rekey_incoming(),
                RekeyKind::ManualI(id) if id % 2 == 0 => t.rekey_manually(Some(&Self::manual_key(session, 0, id)), None),
                RekeyKind::ManualI(id) => t.rekey_initiator_manually(&Self::manual_key(session, 0, id)),
                RekeyKind::ManualR(id) if id % 2 == 0 => t.rekey_manually(None, Some(&Self::manual_key(session, 1, id))),
                RekeyKind::ManualR(id) => t.rekey_responder_manually(&Self::manual_key(session, 1, id)),
                RekeyKind::ManualBoth(id) => t.rekey_manually(Some(&Self::manual_key(session, 0, id)), Some(&Self::manual_key(session, 1, id))),
                RekeyKind::ManualNone => t.rekey_manually(None, None),
            })),
            _ => None,
        };
        match r {
            None => {},
            Some(Err(p)) => {
                self.flag(&["C10", "C15"], "panic", "rekey", &p);
                node.st = St::Gone("panic");
            },
            Some(Ok(())) => {
                self.stats.fault(match which {
                    RekeyKind::Outgoing => "rekey-outgoing",
                    RekeyKind::Incoming => "rekey-incoming",
                    _ => "rekey-manual",
                });
                self.trace.write_u64(77);
                self.in_rekey_call = true;
                self.drain_cipher_log(i, "rekey", false);
                self.in_rekey_call = false;
                if let Some(trm) = node.trm.as_mut() {
                    match which {
                        RekeyKind::Outgoing => {
                            let d = trm.send_dir();
                            trm.rekey_dir(d)
                        },
                        RekeyKind::Incoming => {
                            let d = trm.recv_dir();
                            trm.rekey_dir(d)
                        },
                        RekeyKind::ManualI(id) => trm.keys[0] = Self::manual_key(session, 0, id),
                        RekeyKind::ManualR(id) => trm.keys[1] = Self::manual_key(session, 1, id),
                        RekeyKind::ManualBoth(id) => {
                            trm.keys[0] = Self::manual_key(session, 0, id);
                            trm.keys[1] = Self::manual_key(session, 1, id);
                        },
                        RekeyKind::ManualNone => {},
                    }
                }
                // key values shared between directions or sessions (ids 4-7): any (key, nonce)
                // coincidence from here on is the caller's doing, not snow's
                if let RekeyKind::ManualI(id) | RekeyKind::ManualR(id) | RekeyKind::ManualBoth(id) = which {
                    if id >= 4 {
                        node.send_tainted = true;
                    }
                }
                let after = match &node.st {
                    St::Tr(t) => Some((t.sending_nonce(), t.receiving_nonce())),
                    _ => None,
                };
                if before != after {
                    self.flag(&["C15", "C09"], "rekey-moved-nonce", "rekey", &format!("{before:?} -> {after:?}"));
                }
            },
        }
        self.put(i, node);
    }

    // ---------------------------------------------------------------------------- end-of-run

    /// Cross-node checks evaluated once the op list is exhausted.
    pub fn finish(&mut self) {
        self.op_index = usize::MAX;
        for s in 0..self.nodes.len() / 2 {
            let (a, b) = (2 * s, 2 * s + 1);
            let fin = |n: &Node| match &n.st {
                St::Hs(h) => h.is_handshake_finished(),
                St::Tr(_) | St::Sl(_) => true,
                _ => false,
            };
            let (fa, fb) = (fin(&self.nodes[a]), fin(&self.nodes[b]));
            let st = format!(
                "{}:{}{}",
                self.cfg.stratum,
                self.nodes[a].st.phase(),
                self.nodes[b].st.phase()
            );
            self.stats.states.insert(st);
            if fa && fb {
                self.stats.probe("session-both-finished");
                if let Some((e0, how)) = self.tamper_accepted[s].clone() {
                    if self.errs[s] == e0 {
                        self.flag(&["C03"], "both-finished-after-alteration-without-error", &how, &format!("name={}", self.cfg.nodes[a].name));
                    }
                }
                // (a call that merely came before set_psk is not "an error" of the handshake)
                if self.cfg.mismatch && s == 0 && self.errs_hard[s] == 0 {
                    self.flag(&["C08"], "both-finished-despite-context-mismatch", &self.cfg.stratum.clone(), &format!("{} / {}", self.cfg.nodes[a].name, self.cfg.nodes[b].name));
                }
                // equal handshake hashes (C02): last value observed while in handshake state
                let hx = match &self.nodes[a].st {
                    St::Hs(x) => Some(x.get_handshake_hash().to_vec()),
                    _ => self.nodes[a].final_hash.clone(),
                };
                let hy = match &self.nodes[b].st {
                    St::Hs(x) => Some(x.get_handshake_hash().to_vec()),
                    _ => self.nodes[b].final_hash.clone(),
                };
                if let (Some(hx), Some(hy)) = (hx, hy) {
                    if hx != hy && self.tamper_accepted[s].is_none() && !self.cfg.mismatch {
                        self.flag(&["C02"], "peers-finished-with-different-hashes", "finish", &format!("name={}", self.cfg.nodes[a].name));
                    } else if hx == hy {
                        self.stats.probe("peers-finished-with-equal-hashes");
                    }
                }
            }
        }
    }

    pub fn both_finished(&self, session: usize) -> bool {
        let fin = |n: &Node| match &n.st {
            St::Hs(h) => h.is_handshake_finished(),
            St::Tr(_) | St::Sl(_) => true,
            _ => false,
        };
        fin(&self.nodes[2 * session]) && fin(&self.nodes[2 * session + 1])
    }
}

pub fn backend_name(b: crate::seam::Backend) -> &'static str {
    match b {
        crate::seam::Backend::Default => "default",
        crate::seam::Backend::RingFirst => "ring",
        crate::seam::Backend::DefaultFirst => "default+ringfallback",
    }
}

fn model_payload_enc(fields: &[Field]) -> bool {
    fields.iter().any(|f| f.kind == FieldKind::PayloadTag)
}

/// Which boundary window of the field map does `buflen` fall into (abstract site for panics).
pub fn boundary_class(buflen: usize, fields: &[Field], predicted: usize) -> String {
    if buflen >= predicted + TAGLEN {
        return "ample".into();
    }
    if buflen >= predicted {
        return "fits-no-spare".into();
    }
    for f in fields {
        if buflen < f.off + f.len {
            return format!("inside-{:?}", f.kind);
        }
    }
    "short".into()
}

pub fn first_diff_field(a: &[u8], b: &[u8], fields: &[Field]) -> String {
    if a.len() != b.len() {
        return if b.len() < a.len() { "shorter".into() } else { "longer".into() };
    }
    let p = a.iter().zip(b.iter()).position(|(x, y)| x != y);
    match p {
        None => "same".into(),
        Some(p) => {
            for f in fields {
                if p >= f.off && p < f.off + f.len {
                    return format!("{:?}", f.kind);
                }
            }
            "outside".into()
        },
    }
}

/// Did the alteration touch an AEAD-covered field (or change the length while the payload is
/// encrypted)?
pub fn touches_encrypted(orig: &[u8], alt: &[u8], fields: &[Field]) -> bool {
    let payload_enc = model_payload_enc(fields);
    if orig.len() != alt.len() {
        return payload_enc;
    }
    for f in fields {
        if f.encrypted && orig[f.off..f.off + f.len] != alt[f.off..f.off + f.len] {
            return true;
        }
    }
    false
}

/// C19: does `out` contain (an aligned window of) the plaintext `p`?
pub fn leak_check(out: &[u8], p: &[u8]) -> bool {
    if p.len() < 8 {
        return false;
    }
    // aligned 16-byte windows at their own offset (covers P and P xor delta)
    let mut off = 0;
    while off < p.len() {
        let end = (off + 16).min(p.len());
        if end - off >= 8 && end <= out.len() {
            // equal up to a few altered positions: decrypt-before-verify yields P xor delta
            let same = out[off..end].iter().zip(p[off..end].iter()).filter(|(a, b)| a == b).count();
            let need = ((end - off) * 3 + 3) / 4;
            if same >= need.max(6) {
                return true;
            }
        }
        off += 16;
    }
    // the whole plaintext (or its first 16 bytes) anywhere in the buffer
    let w = &p[..p.len().min(16)];
    if out.len() >= w.len() && out.len() <= 4096 {
        return out.windows(w.len()).any(|x| x == w);
    }
    false
}
