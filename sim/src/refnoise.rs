//! refnoise: a small executable model of the Noise Protocol Framework (rev 34) written from the
//! specification text, independent of snow's source. Patterns are kept in the spec's own textual
//! notation; HMAC/HKDF come from the RustCrypto `hmac`/`hkdf` crates; AEAD and DH are called
//! directly with nonce encodings written from the spec. No rollback logic: callers clone first.

use aes_gcm::Aes256Gcm;
use blake2::{Blake2b512, Blake2s256};
use chacha20poly1305::{
    aead::{AeadInPlace, KeyInit},
    ChaCha20Poly1305, XChaCha20Poly1305,
};
use hkdf::{Hkdf, SimpleHkdf};
use p256::elliptic_curve::sec1::ToEncodedPoint;
use sha2::{Digest, Sha256, Sha512};
use std::sync::Arc;

pub const TAGLEN: usize = 16;

#[derive(Clone, Copy, PartialEq, Eq, Debug, Hash, PartialOrd, Ord)]
pub enum DhK {
    X25519,
    P256,
}
#[derive(Clone, Copy, PartialEq, Eq, Debug, Hash, PartialOrd, Ord)]
pub enum CipherK {
    ChaChaPoly,
    AesGcm,
    XChaChaPoly,
}
#[derive(Clone, Copy, PartialEq, Eq, Debug, Hash, PartialOrd, Ord)]
pub enum HashK {
    Sha256,
    Sha512,
    Blake2s,
    Blake2b,
}

#[derive(Clone, Copy, PartialEq, Eq, Debug, Hash)]
pub enum Tok {
    E,
    S,
    EE,
    ES,
    SE,
    SS,
    Psk(u8),
}

#[derive(Clone, Copy, PartialEq, Eq, Debug)]
pub enum RefErr {
    State,
    MissingPsk,
    MissingKey,
    Dh,
    Decrypt,
    Short,
    Exhausted,
    BadName,
}

/// The 38 patterns of sections 7.4, 7.5 and 7.6 of the specification, in its notation.
pub const PATTERN_TEXT: &[(&str, &str)] = &[
    ("N", "<- s\n...\n-> e, es"),
    ("K", "-> s\n<- s\n...\n-> e, es, ss"),
    ("X", "<- s\n...\n-> e, es, s, ss"),
    ("NN", "-> e\n<- e, ee"),
    ("NK", "<- s\n...\n-> e, es\n<- e, ee"),
    ("NX", "-> e\n<- e, ee, s, es"),
    ("XN", "-> e\n<- e, ee\n-> s, se"),
    ("XK", "<- s\n...\n-> e, es\n<- e, ee\n-> s, se"),
    ("XX", "-> e\n<- e, ee, s, es\n-> s, se"),
    ("KN", "-> s\n...\n-> e\n<- e, ee, se"),
    ("KK", "-> s\n<- s\n...\n-> e, es, ss\n<- e, ee, se"),
    ("KX", "-> s\n...\n-> e\n<- e, ee, se, s, es"),
    ("IN", "-> e, s\n<- e, ee, se"),
    ("IK", "<- s\n...\n-> e, es, s, ss\n<- e, ee, se"),
    ("IX", "-> e, s\n<- e, ee, se, s, es"),
    ("NK1", "<- s\n...\n-> e\n<- e, ee, es"),
    ("NX1", "-> e\n<- e, ee, s\n-> es"),
    ("X1N", "-> e\n<- e, ee\n-> s\n<- se"),
    ("X1K", "<- s\n...\n-> e, es\n<- e, ee\n-> s\n<- se"),
    ("XK1", "<- s\n...\n-> e\n<- e, ee, es\n-> s, se"),
    ("X1K1", "<- s\n...\n-> e\n<- e, ee, es\n-> s\n<- se"),
    ("X1X", "-> e\n<- e, ee, s, es\n-> s\n<- se"),
    ("XX1", "-> e\n<- e, ee, s\n-> es, s, se"),
    ("X1X1", "-> e\n<- e, ee, s\n-> es, s\n<- se"),
    ("K1N", "-> s\n...\n-> e\n<- e, ee\n-> se"),
    ("K1K", "-> s\n<- s\n...\n-> e, es\n<- e, ee\n-> se"),
    ("KK1", "-> s\n<- s\n...\n-> e\n<- e, ee, se, es"),
    ("K1K1", "-> s\n<- s\n...\n-> e\n<- e, ee, es\n-> se"),
    ("K1X", "-> s\n...\n-> e\n<- e, ee, s, es\n-> se"),
    ("KX1", "-> s\n...\n-> e\n<- e, ee, se, s\n-> es"),
    ("K1X1", "-> s\n...\n-> e\n<- e, ee, s\n-> se, es"),
    ("I1N", "-> e, s\n<- e, ee\n-> se"),
    ("I1K", "<- s\n...\n-> e, es, s\n<- e, ee\n-> se"),
    ("IK1", "<- s\n...\n-> e, s\n<- e, ee, se, es"),
    ("I1K1", "<- s\n...\n-> e, s\n<- e, ee, es\n-> se"),
    ("I1X", "-> e, s\n<- e, ee, s, es\n-> se"),
    ("IX1", "-> e, s\n<- e, ee, se, s\n-> es"),
    ("I1X1", "-> e, s\n<- e, ee, s\n-> se, es"),
];

pub fn pattern_names() -> Vec<&'static str> {
    PATTERN_TEXT.iter().map(|p| p.0).collect()
}

#[derive(Clone, Debug)]
pub struct Proto {
    pub name: String,
    pub base: String,
    pub psk_mods: Vec<u8>,
    pub dh: DhK,
    pub cipher: CipherK,
    pub hash: HashK,
    pub pre_i: Vec<Tok>,
    pub pre_r: Vec<Tok>,
    /// message token lists; message 0 is always sent by the initiator
    pub msgs: Vec<Vec<Tok>>,
}

fn parse_tok(t: &str) -> Option<Tok> {
    Some(match t {
        "e" => Tok::E,
        "s" => Tok::S,
        "ee" => Tok::EE,
        "es" => Tok::ES,
        "se" => Tok::SE,
        "ss" => Tok::SS,
        _ => return None,
    })
}

fn parse_pattern_text(text: &str) -> (Vec<Tok>, Vec<Tok>, Vec<Vec<Tok>>) {
    let (pre, body) = match text.split_once("...\n") {
        Some((a, b)) => (a, b),
        None => ("", text),
    };
    let mut pre_i = vec![];
    let mut pre_r = vec![];
    for line in pre.lines() {
        let line = line.trim();
        if line.is_empty() {
            continue;
        }
        let (dir, toks) = line.split_at(2);
        let toks: Vec<Tok> = toks.split(',').map(|t| parse_tok(t.trim()).expect("token")).collect();
        if dir == "->" {
            pre_i = toks
        } else {
            pre_r = toks
        }
    }
    let mut msgs = vec![];
    for (i, line) in body.lines().enumerate() {
        let line = line.trim();
        let (dir, toks) = line.split_at(2);
        assert_eq!(dir == "->", i % 2 == 0, "pattern text must alternate starting with ->");
        msgs.push(toks.split(',').map(|t| parse_tok(t.trim()).expect("token")).collect());
    }
    (pre_i, pre_r, msgs)
}

impl Proto {
    /// The model's own reading of a protocol name. psk indices may carry leading zeros
    /// ("psk003"), which the name grammar of the model treats as the number.
    pub fn parse(name: &str) -> Result<Proto, RefErr> {
        let parts: Vec<&str> = name.split('_').collect();
        if parts.len() != 5 || parts[0] != "Noise" {
            return Err(RefErr::BadName);
        }
        let hp = parts[1];
        // longest pattern-name prefix
        let mut best: Option<(&str, &str)> = None;
        for (pn, text) in PATTERN_TEXT {
            if hp.starts_with(pn) && best.map_or(true, |(b, _)| pn.len() > b.len()) {
                // the remainder must be empty or start a modifier (letters), which is always the
                // case for the supported names; keep the longest match
                best = Some((pn, text));
            }
        }
        let (base, text) = best.ok_or(RefErr::BadName)?;
        let rest = &hp[base.len()..];
        let mut psk_mods = vec![];
        if !rest.is_empty() {
            for m in rest.split('+') {
                let num = m.strip_prefix("psk").ok_or(RefErr::BadName)?;
                if num.is_empty() || !num.bytes().all(|b| b.is_ascii_digit()) {
                    return Err(RefErr::BadName);
                }
                let n: u32 = num.parse().map_err(|_| RefErr::BadName)?;
                if n > 255 || psk_mods.contains(&(n as u8)) {
                    return Err(RefErr::BadName);
                }
                psk_mods.push(n as u8);
            }
        }
        let dh = match parts[2] {
            "25519" => DhK::X25519,
            "P256" => DhK::P256,
            _ => return Err(RefErr::BadName),
        };
        let cipher = match parts[3] {
            "ChaChaPoly" => CipherK::ChaChaPoly,
            "AESGCM" => CipherK::AesGcm,
            "XChaChaPoly" => CipherK::XChaChaPoly,
            _ => return Err(RefErr::BadName),
        };
        let hash = match parts[4] {
            "SHA256" => HashK::Sha256,
            "SHA512" => HashK::Sha512,
            "BLAKE2s" => HashK::Blake2s,
            "BLAKE2b" => HashK::Blake2b,
            _ => return Err(RefErr::BadName),
        };
        let (pre_i, pre_r, mut msgs) = parse_pattern_text(text);
        // Section 9: psk0 goes to the front of the first message, pskN to the end of the N-th.
        for &n in &psk_mods {
            if n == 0 {
                msgs[0].insert(0, Tok::Psk(0));
            } else {
                let idx = n as usize - 1;
                if idx >= msgs.len() {
                    return Err(RefErr::BadName);
                }
                msgs[idx].push(Tok::Psk(n));
            }
        }
        Ok(Proto {
            name: name.to_string(),
            base: base.to_string(),
            psk_mods,
            dh,
            cipher,
            hash,
            pre_i,
            pre_r,
            msgs,
        })
    }

    pub fn is_psk(&self) -> bool {
        !self.psk_mods.is_empty()
    }
    pub fn n_messages(&self) -> usize {
        self.msgs.len()
    }
    pub fn is_oneway(&self) -> bool {
        self.msgs.len() == 1
    }
    /// Does `initiator`'s own static key occur anywhere (pre-message, 's' token, DH token)?
    pub fn needs_local_static(&self, initiator: bool) -> bool {
        let pre = if initiator { &self.pre_i } else { &self.pre_r };
        if pre.contains(&Tok::S) {
            return true;
        }
        for (i, m) in self.msgs.iter().enumerate() {
            let mine = (i % 2 == 0) == initiator;
            for t in m {
                match t {
                    Tok::S if mine => return true,
                    Tok::SS => return true,
                    // es: initiator's e with responder's s ; se: initiator's s with responder's e
                    Tok::ES if !initiator => return true,
                    Tok::SE if initiator => return true,
                    _ => {},
                }
            }
        }
        false
    }
    /// Is the peer's static key pre-shared to `initiator`-role party?
    pub fn needs_remote_static(&self, initiator: bool) -> bool {
        let pre = if initiator { &self.pre_r } else { &self.pre_i };
        pre.contains(&Tok::S)
    }
    /// Does the peer's static key ever become known to this role (pre-shared or transmitted)?
    pub fn learns_remote_static(&self, initiator: bool) -> bool {
        if self.needs_remote_static(initiator) {
            return true;
        }
        self.msgs.iter().enumerate().any(|(i, m)| ((i % 2 == 0) != initiator) && m.contains(&Tok::S))
    }
    pub fn pub_len(&self) -> usize {
        self.dh.pub_len()
    }
}

impl DhK {
    pub fn pub_len(self) -> usize {
        match self {
            DhK::X25519 => 32,
            DhK::P256 => 65,
        }
    }
    pub fn name(self) -> &'static str {
        match self {
            DhK::X25519 => "25519",
            DhK::P256 => "P256",
        }
    }
    /// public key from a 32-byte private key; None if the scalar is invalid (P-256 only)
    pub fn pubkey(self, privk: &[u8]) -> Option<Vec<u8>> {
        match self {
            DhK::X25519 => {
                let mut k = [0u8; 32];
                k.copy_from_slice(privk);
                Some(x25519_dalek::x25519(k, x25519_dalek::X25519_BASEPOINT_BYTES).to_vec())
            },
            DhK::P256 => {
                let sk = p256::SecretKey::from_slice(privk).ok()?;
                Some(sk.public_key().to_encoded_point(false).as_bytes().to_vec())
            },
        }
    }
    pub fn dh(self, privk: &[u8], pubk: &[u8]) -> Result<Vec<u8>, RefErr> {
        match self {
            DhK::X25519 => {
                let mut k = [0u8; 32];
                k.copy_from_slice(privk);
                let mut u = [0u8; 32];
                u.copy_from_slice(&pubk[..32]);
                Ok(x25519_dalek::x25519(k, u).to_vec())
            },
            DhK::P256 => {
                let sk = p256::SecretKey::from_slice(privk).map_err(|_| RefErr::Dh)?;
                let pk = p256::PublicKey::from_sec1_bytes(pubk).map_err(|_| RefErr::Dh)?;
                let ss = p256::ecdh::diffie_hellman(sk.to_nonzero_scalar(), pk.as_affine());
                Ok(ss.raw_secret_bytes().to_vec())
            },
        }
    }
}

impl HashK {
    pub fn hash_len(self) -> usize {
        match self {
            HashK::Sha256 | HashK::Blake2s => 32,
            HashK::Sha512 | HashK::Blake2b => 64,
        }
    }
    pub fn name(self) -> &'static str {
        match self {
            HashK::Sha256 => "SHA256",
            HashK::Sha512 => "SHA512",
            HashK::Blake2s => "BLAKE2s",
            HashK::Blake2b => "BLAKE2b",
        }
    }
    pub fn hash(self, parts: &[&[u8]]) -> Vec<u8> {
        macro_rules! go {
            ($t:ty) => {{
                let mut d = <$t>::new();
                for p in parts {
                    d.update(p);
                }
                d.finalize().to_vec()
            }};
        }
        match self {
            HashK::Sha256 => go!(Sha256),
            HashK::Sha512 => go!(Sha512),
            HashK::Blake2s => go!(Blake2s256),
            HashK::Blake2b => go!(Blake2b512),
        }
    }
    /// Noise HKDF(chaining_key, input_key_material, num_outputs) = RFC 5869 with salt = ck,
    /// empty info, num_outputs*HASHLEN bytes of output.
    pub fn hkdf(self, ck: &[u8], ikm: &[u8], n: usize) -> Vec<Vec<u8>> {
        let hl = self.hash_len();
        let mut okm = vec![0u8; n * hl];
        match self {
            HashK::Sha256 => Hkdf::<Sha256>::new(Some(ck), ikm).expand(&[], &mut okm).unwrap(),
            HashK::Sha512 => Hkdf::<Sha512>::new(Some(ck), ikm).expand(&[], &mut okm).unwrap(),
            HashK::Blake2s => {
                SimpleHkdf::<Blake2s256>::new(Some(ck), ikm).expand(&[], &mut okm).unwrap()
            },
            HashK::Blake2b => {
                SimpleHkdf::<Blake2b512>::new(Some(ck), ikm).expand(&[], &mut okm).unwrap()
            },
        }
        okm.chunks(hl).map(|c| c.to_vec()).collect()
    }
}

impl CipherK {
    pub fn name(self) -> &'static str {
        match self {
            CipherK::ChaChaPoly => "ChaChaPoly",
            CipherK::AesGcm => "AESGCM",
            CipherK::XChaChaPoly => "XChaChaPoly",
        }
    }
    /// ENCRYPT(k, n, ad, plaintext) -> ciphertext || tag
    pub fn encrypt(self, k: &[u8; 32], n: u64, ad: &[u8], pt: &[u8]) -> Vec<u8> {
        let mut out = pt.to_vec();
        let tag: Vec<u8> = match self {
            CipherK::ChaChaPoly => {
                let mut nonce = [0u8; 12];
                nonce[4..].copy_from_slice(&n.to_le_bytes());
                ChaCha20Poly1305::new(k.into())
                    .encrypt_in_place_detached(&nonce.into(), ad, &mut out)
                    .unwrap()
                    .to_vec()
            },
            CipherK::AesGcm => {
                let mut nonce = [0u8; 12];
                nonce[4..].copy_from_slice(&n.to_be_bytes());
                Aes256Gcm::new(k.into())
                    .encrypt_in_place_detached(&nonce.into(), ad, &mut out)
                    .unwrap()
                    .to_vec()
            },
            CipherK::XChaChaPoly => {
                let mut nonce = [0u8; 24];
                nonce[16..].copy_from_slice(&n.to_le_bytes());
                XChaCha20Poly1305::new(k.into())
                    .encrypt_in_place_detached(&nonce.into(), ad, &mut out)
                    .unwrap()
                    .to_vec()
            },
        };
        out.extend_from_slice(&tag);
        out
    }
    /// DECRYPT(k, n, ad, ciphertext)
    pub fn decrypt(self, k: &[u8; 32], n: u64, ad: &[u8], ct: &[u8]) -> Result<Vec<u8>, RefErr> {
        if ct.len() < TAGLEN {
            return Err(RefErr::Decrypt);
        }
        let (body, tag) = ct.split_at(ct.len() - TAGLEN);
        let mut out = body.to_vec();
        let r = match self {
            CipherK::ChaChaPoly => {
                let mut nonce = [0u8; 12];
                nonce[4..].copy_from_slice(&n.to_le_bytes());
                ChaCha20Poly1305::new(k.into()).decrypt_in_place_detached(
                    &nonce.into(),
                    ad,
                    &mut out,
                    tag.into(),
                )
            },
            CipherK::AesGcm => {
                let mut nonce = [0u8; 12];
                nonce[4..].copy_from_slice(&n.to_be_bytes());
                Aes256Gcm::new(k.into()).decrypt_in_place_detached(
                    &nonce.into(),
                    ad,
                    &mut out,
                    tag.into(),
                )
            },
            CipherK::XChaChaPoly => {
                let mut nonce = [0u8; 24];
                nonce[16..].copy_from_slice(&n.to_le_bytes());
                XChaCha20Poly1305::new(k.into()).decrypt_in_place_detached(
                    &nonce.into(),
                    ad,
                    &mut out,
                    tag.into(),
                )
            },
        };
        r.map(|_| out).map_err(|_| RefErr::Decrypt)
    }
    /// REKEY(k): first 32 bytes of ENCRYPT(k, 2^64-1, "", zeros[32])
    pub fn rekey(self, k: &[u8; 32]) -> [u8; 32] {
        let ct = self.encrypt(k, u64::MAX, &[], &[0u8; 32]);
        let mut nk = [0u8; 32];
        nk.copy_from_slice(&ct[..32]);
        nk
    }
}

#[derive(Clone, Copy, PartialEq, Eq, Debug, Hash)]
pub enum FieldKind {
    E,
    S,
    STag,
    Payload,
    PayloadTag,
}

#[derive(Clone, Copy, Debug)]
pub struct Field {
    pub kind: FieldKind,
    pub off: usize,
    pub len: usize,
    /// is this field covered by an AEAD (ciphertext or tag)?
    pub encrypted: bool,
}

#[derive(Clone, Debug)]
pub struct KeyPair {
    pub privk: Vec<u8>,
    pub pubk: Vec<u8>,
}

#[derive(Clone)]
pub struct RefHs {
    pub proto: Arc<Proto>,
    pub initiator: bool,
    pub h: Vec<u8>,
    pub ck: Vec<u8>,
    pub k: Option<[u8; 32]>,
    pub n: u64,
    pub s: Option<KeyPair>,
    pub e: Option<KeyPair>,
    pub rs: Option<Vec<u8>>,
    pub re: Option<Vec<u8>>,
    pub psks: [Option<[u8; 32]>; 10],
    pub idx: usize,
    /// (initiator->responder key, responder->initiator key) after Split()
    pub split: Option<([u8; 32], [u8; 32])>,
}

fn trunc32(v: &[u8]) -> [u8; 32] {
    let mut k = [0u8; 32];
    k.copy_from_slice(&v[..32]);
    k
}

impl RefHs {
    pub fn new(
        proto: Arc<Proto>,
        initiator: bool,
        prologue: &[u8],
        s_priv: Option<&[u8]>,
        rs: Option<&[u8]>,
        psks: [Option<[u8; 32]>; 10],
    ) -> Result<RefHs, RefErr> {
        let hl = proto.hash.hash_len();
        // InitializeSymmetric
        let h = if proto.name.len() <= hl {
            let mut h = vec![0u8; hl];
            h[..proto.name.len()].copy_from_slice(proto.name.as_bytes());
            h
        } else {
            proto.hash.hash(&[proto.name.as_bytes()])
        };
        let s = match s_priv {
            Some(p) => {
                let pubk = proto.dh.pubkey(p).ok_or(RefErr::MissingKey)?;
                Some(KeyPair { privk: p.to_vec(), pubk })
            },
            None => None,
        };
        let mut st = RefHs {
            proto: proto.clone(),
            initiator,
            ck: h.clone(),
            h,
            k: None,
            n: 0,
            s,
            e: None,
            rs: rs.map(|r| r.to_vec()),
            re: None,
            psks,
            idx: 0,
            split: None,
        };
        st.mix_hash(prologue);
        // pre-messages: initiator's first, then responder's
        for t in proto.pre_i.iter() {
            debug_assert_eq!(*t, Tok::S);
            let key = if initiator {
                st.s.as_ref().map(|k| k.pubk.clone())
            } else {
                st.rs.clone()
            };
            let key = key.ok_or(RefErr::MissingKey)?;
            st.mix_hash(&key);
        }
        for t in proto.pre_r.iter() {
            debug_assert_eq!(*t, Tok::S);
            let key = if initiator {
                st.rs.clone()
            } else {
                st.s.as_ref().map(|k| k.pubk.clone())
            };
            let key = key.ok_or(RefErr::MissingKey)?;
            st.mix_hash(&key);
        }
        Ok(st)
    }

    pub fn my_turn(&self) -> bool {
        (self.idx % 2 == 0) == self.initiator
    }
    pub fn finished(&self) -> bool {
        self.idx >= self.proto.msgs.len()
    }
    pub fn has_key(&self) -> bool {
        self.k.is_some()
    }

    fn mix_hash(&mut self, data: &[u8]) {
        self.h = self.proto.hash.hash(&[&self.h, data]);
    }
    fn mix_key(&mut self, ikm: &[u8]) {
        let o = self.proto.hash.hkdf(&self.ck, ikm, 2);
        self.ck = o[0].clone();
        self.k = Some(trunc32(&o[1]));
        self.n = 0;
    }
    fn mix_key_and_hash(&mut self, ikm: &[u8]) {
        let o = self.proto.hash.hkdf(&self.ck, ikm, 3);
        self.ck = o[0].clone();
        let th = o[1].clone();
        self.mix_hash(&th);
        self.k = Some(trunc32(&o[2]));
        self.n = 0;
    }
    fn encrypt_and_hash(&mut self, pt: &[u8]) -> Result<Vec<u8>, RefErr> {
        let ct = match self.k {
            Some(k) => {
                if self.n == u64::MAX {
                    return Err(RefErr::Exhausted);
                }
                let c = self.proto.cipher.encrypt(&k, self.n, &self.h, pt);
                self.n += 1;
                c
            },
            None => pt.to_vec(),
        };
        self.mix_hash(&ct);
        Ok(ct)
    }
    fn decrypt_and_hash(&mut self, ct: &[u8]) -> Result<Vec<u8>, RefErr> {
        let pt = match self.k {
            Some(k) => {
                if self.n == u64::MAX {
                    return Err(RefErr::Exhausted);
                }
                let p = self.proto.cipher.decrypt(&k, self.n, &self.h, ct)?;
                self.n += 1;
                p
            },
            None => ct.to_vec(),
        };
        self.mix_hash(ct);
        Ok(pt)
    }
    fn do_split(&mut self) {
        let o = self.proto.hash.hkdf(&self.ck, &[], 2);
        self.split = Some((trunc32(&o[0]), trunc32(&o[1])));
    }
    fn dh_tok(&mut self, t: Tok) -> Result<(), RefErr> {
        let (mine, theirs) = match (t, self.initiator) {
            (Tok::EE, _) => (&self.e, &self.re),
            (Tok::SS, _) => (&self.s, &self.rs),
            (Tok::ES, true) | (Tok::SE, false) => (&self.e, &self.rs),
            (Tok::ES, false) | (Tok::SE, true) => (&self.s, &self.re),
            _ => unreachable!(),
        };
        let mine = mine.as_ref().ok_or(RefErr::MissingKey)?;
        let theirs = theirs.as_ref().ok_or(RefErr::MissingKey)?;
        let out = self.proto.dh.dh(&mine.privk, theirs)?;
        self.mix_key(&out);
        Ok(())
    }

    /// Are all PSKs that the next message's tokens need present?
    pub fn psks_present_for_next(&self) -> bool {
        if self.finished() {
            return true;
        }
        self.proto.msgs[self.idx].iter().all(|t| match t {
            Tok::Psk(n) => self.psks[*n as usize].is_some(),
            _ => true,
        })
    }

    /// Field map of the next message (as written or as expected to be read) for a payload of
    /// `payload_len` bytes. Pure bookkeeping, no cryptography.
    pub fn field_map(&self, payload_len: usize) -> Vec<Field> {
        let mut out = vec![];
        if self.finished() {
            return out;
        }
        let mut has_key = self.k.is_some();
        let mut off = 0;
        let pl = self.proto.pub_len();
        for t in &self.proto.msgs[self.idx] {
            match t {
                Tok::E => {
                    out.push(Field { kind: FieldKind::E, off, len: pl, encrypted: false });
                    off += pl;
                    if self.proto.is_psk() {
                        has_key = true;
                    }
                },
                Tok::S => {
                    out.push(Field { kind: FieldKind::S, off, len: pl, encrypted: has_key });
                    off += pl;
                    if has_key {
                        out.push(Field { kind: FieldKind::STag, off, len: TAGLEN, encrypted: true });
                        off += TAGLEN;
                    }
                },
                Tok::EE | Tok::ES | Tok::SE | Tok::SS | Tok::Psk(_) => has_key = true,
            }
        }
        out.push(Field { kind: FieldKind::Payload, off, len: payload_len, encrypted: has_key });
        off += payload_len;
        if has_key {
            out.push(Field { kind: FieldKind::PayloadTag, off, len: TAGLEN, encrypted: true });
        }
        out
    }
    pub fn predicted_len(&self, payload_len: usize) -> usize {
        self.field_map(payload_len).iter().map(|f| f.len).sum()
    }
    /// fixed overhead of the next message (everything but the payload bytes)
    pub fn overhead(&self) -> usize {
        self.predicted_len(0)
    }
    /// will the payload of the next message be encrypted?
    pub fn payload_encrypted_next(&self) -> bool {
        self.field_map(0).iter().any(|f| f.kind == FieldKind::PayloadTag)
    }
    pub fn next_has_e(&self) -> bool {
        !self.finished() && self.proto.msgs[self.idx].contains(&Tok::E)
    }
    pub fn next_has_s(&self) -> bool {
        !self.finished() && self.proto.msgs[self.idx].contains(&Tok::S)
    }

    /// WriteMessage. `eph` is the ephemeral private key to use when the message has an 'e' token.
    /// Not transactional: clone before calling if the old state is needed after an error.
    pub fn write(&mut self, payload: &[u8], eph: Option<&[u8]>) -> Result<Vec<u8>, RefErr> {
        if self.finished() || !self.my_turn() {
            return Err(RefErr::State);
        }
        let toks = self.proto.msgs[self.idx].clone();
        let mut buf = vec![];
        for t in toks {
            match t {
                Tok::E => {
                    let p = eph.ok_or(RefErr::MissingKey)?;
                    let pubk = self.proto.dh.pubkey(p).ok_or(RefErr::Dh)?;
                    self.e = Some(KeyPair { privk: p.to_vec(), pubk: pubk.clone() });
                    buf.extend_from_slice(&pubk);
                    self.mix_hash(&pubk);
                    if self.proto.is_psk() {
                        self.mix_key(&pubk);
                    }
                },
                Tok::S => {
                    let pubk = self.s.as_ref().ok_or(RefErr::MissingKey)?.pubk.clone();
                    let c = self.encrypt_and_hash(&pubk)?;
                    buf.extend_from_slice(&c);
                },
                Tok::Psk(n) => {
                    let psk = self.psks[n as usize].ok_or(RefErr::MissingPsk)?;
                    self.mix_key_and_hash(&psk);
                },
                d => self.dh_tok(d)?,
            }
        }
        let c = self.encrypt_and_hash(payload)?;
        buf.extend_from_slice(&c);
        self.idx += 1;
        if self.finished() {
            self.do_split();
        }
        Ok(buf)
    }

    /// ReadMessage -> payload. Not transactional.
    pub fn read(&mut self, msg: &[u8]) -> Result<Vec<u8>, RefErr> {
        if self.finished() || self.my_turn() {
            return Err(RefErr::State);
        }
        let toks = self.proto.msgs[self.idx].clone();
        let pl = self.proto.pub_len();
        let mut p = msg;
        for t in toks {
            match t {
                Tok::E => {
                    if p.len() < pl {
                        return Err(RefErr::Short);
                    }
                    let re = p[..pl].to_vec();
                    p = &p[pl..];
                    self.mix_hash(&re);
                    if self.proto.is_psk() {
                        self.mix_key(&re);
                    }
                    self.re = Some(re);
                },
                Tok::S => {
                    let l = if self.has_key() { pl + TAGLEN } else { pl };
                    if p.len() < l {
                        return Err(RefErr::Short);
                    }
                    let temp = &p[..l];
                    p = &p[l..];
                    let rs = self.decrypt_and_hash(temp)?;
                    self.rs = Some(rs);
                },
                Tok::Psk(n) => {
                    let psk = self.psks[n as usize].ok_or(RefErr::MissingPsk)?;
                    self.mix_key_and_hash(&psk);
                },
                d => self.dh_tok(d)?,
            }
        }
        let payload = self.decrypt_and_hash(p)?;
        self.idx += 1;
        if self.finished() {
            self.do_split();
        }
        Ok(payload)
    }
}

/// Model of one endpoint's transport-phase keys and counters.
#[derive(Clone, Debug)]
pub struct RefTransport {
    pub cipher: CipherK,
    pub initiator: bool,
    pub oneway: bool,
    /// keys[0]: initiator->responder, keys[1]: responder->initiator
    pub keys: [[u8; 32]; 2],
    /// nonces[0]/[1] for the same two directions (stateful mode)
    pub nonces: [u64; 2],
}

impl RefTransport {
    pub fn from_hs(hs: &RefHs) -> Option<RefTransport> {
        let (a, b) = hs.split?;
        Some(RefTransport {
            cipher: hs.proto.cipher,
            initiator: hs.initiator,
            oneway: hs.proto.is_oneway(),
            keys: [a, b],
            nonces: [0, 0],
        })
    }
    pub fn send_dir(&self) -> usize {
        if self.initiator {
            0
        } else {
            1
        }
    }
    pub fn recv_dir(&self) -> usize {
        1 - self.send_dir()
    }
    pub fn encrypt_at(&self, dir: usize, nonce: u64, pt: &[u8]) -> Vec<u8> {
        self.cipher.encrypt(&self.keys[dir], nonce, &[], pt)
    }
    pub fn decrypt_at(&self, dir: usize, nonce: u64, ct: &[u8]) -> Result<Vec<u8>, RefErr> {
        self.cipher.decrypt(&self.keys[dir], nonce, &[], ct)
    }
    pub fn rekey_dir(&mut self, dir: usize) {
        self.keys[dir] = self.cipher.rekey(&self.keys[dir]);
    }
}

// ---------------------------------------------------------------------------------------------
// Self-validation against the cacophony vectors (third-party implementation).

fn unhex(v: &serde_json::Value) -> Option<Vec<u8>> {
    v.as_str().and_then(|s| hex::decode(s).ok())
}

/// Replays every Curve25519 vector of the given JSON text through the model.
/// Returns (vectors replayed, messages compared) or a description of the first failure.
pub fn self_validate(json: &str) -> Result<(usize, usize), String> {
    let v: serde_json::Value = serde_json::from_str(json).map_err(|e| format!("json: {e}"))?;
    let vectors = v["vectors"].as_array().ok_or("no vectors")?;
    let mut nvec = 0;
    let mut nmsg = 0;
    for vec in vectors {
        let name = vec["protocol_name"].as_str().ok_or("no name")?;
        let proto = match Proto::parse(name) {
            Ok(p) => Arc::new(p),
            Err(_) => continue, // 448 etc.
        };
        let mk_psks = |key: &str| -> [Option<[u8; 32]>; 10] {
            let mut psks = [None; 10];
            if let Some(list) = vec[key].as_array() {
                for (i, m) in proto.psk_mods.iter().enumerate() {
                    if let Some(b) = list.get(i).and_then(unhex) {
                        psks[*m as usize] = Some(trunc32(&b));
                    }
                }
            }
            psks
        };
        let ipro = unhex(&vec["init_prologue"]).unwrap_or_default();
        let rpro = unhex(&vec["resp_prologue"]).unwrap_or_default();
        let is = unhex(&vec["init_static"]);
        let rs_ = unhex(&vec["resp_static"]);
        let irs = unhex(&vec["init_remote_static"]);
        let rrs = unhex(&vec["resp_remote_static"]);
        let ie = unhex(&vec["init_ephemeral"]);
        let re = unhex(&vec["resp_ephemeral"]);
        let mut ini = RefHs::new(
            proto.clone(),
            true,
            &ipro,
            is.as_deref(),
            irs.as_deref(),
            mk_psks("init_psks"),
        )
        .map_err(|e| format!("{name}: init build {e:?}"))?;
        let mut res = RefHs::new(
            proto.clone(),
            false,
            &rpro,
            rs_.as_deref(),
            rrs.as_deref(),
            mk_psks("resp_psks"),
        )
        .map_err(|e| format!("{name}: resp build {e:?}"))?;
        let msgs = vec["messages"].as_array().ok_or("no messages")?;
        let mut it = msgs.iter().enumerate();
        while !ini.finished() {
            let (i, m) = it.next().ok_or(format!("{name}: ran out of messages"))?;
            let payload = unhex(&m["payload"]).unwrap();
            let expect = unhex(&m["ciphertext"]).unwrap();
            let (snd, rcv, eph) =
                if i % 2 == 0 { (&mut ini, &mut res, &ie) } else { (&mut res, &mut ini, &re) };
            let predicted = snd.predicted_len(payload.len());
            let got = snd.write(&payload, eph.as_deref()).map_err(|e| format!("{name}: write {i}: {e:?}"))?;
            if got != expect {
                return Err(format!("{name}: message {i} differs from vector"));
            }
            if predicted != got.len() {
                return Err(format!("{name}: field map length {predicted} != {}", got.len()));
            }
            let back = rcv.read(&got).map_err(|e| format!("{name}: read {i}: {e:?}"))?;
            if back != payload {
                return Err(format!("{name}: payload {i} mismatch"));
            }
            nmsg += 1;
        }
        if let Some(hh) = unhex(&vec["handshake_hash"]) {
            if ini.h != hh || res.h != hh {
                return Err(format!("{name}: handshake hash differs from vector"));
            }
        }
        let mut ti = RefTransport::from_hs(&ini).unwrap();
        let mut tr = RefTransport::from_hs(&res).unwrap();
        let oneway = proto.is_oneway();
        for (i, m) in it {
            let payload = unhex(&m["payload"]).unwrap();
            let expect = unhex(&m["ciphertext"]).unwrap();
            let (snd, rcv) = if oneway || i % 2 == 0 { (&mut ti, &mut tr) } else { (&mut tr, &mut ti) };
            let d = snd.send_dir();
            let ct = snd.encrypt_at(d, snd.nonces[d], &payload);
            snd.nonces[d] += 1;
            if ct != expect {
                return Err(format!("{name}: transport message {i} differs from vector"));
            }
            let pt = rcv.decrypt_at(d, rcv.nonces[d], &ct).map_err(|e| format!("{name}: tr read {e:?}"))?;
            rcv.nonces[d] += 1;
            if pt != payload {
                return Err(format!("{name}: transport payload {i} mismatch"));
            }
            nmsg += 1;
        }
        nvec += 1;
    }
    Ok((nvec, nmsg))
}
