mod checks;
mod enums;
mod ops;
mod prng;
mod refnoise;
mod run;
mod scen;
mod seam;
mod world;

use ops::{ReplayFile, Violation};
use run::{exec_mode, farm, shrink, RunOut};
use serde_json::json;
use std::collections::BTreeMap;
use std::process::exit;
use world::Stats;

const VECTORS: &str = "/verif/vectors/cacophony.txt";
const FINDINGS: &str = "/verif/known_findings.json";
const REPLAYS: &str = "/verif/replays";
fn evidence_dir() -> String {
    std::env::var("VERIF_EVIDENCE_DIR").unwrap_or_else(|_| "/verif/evidence".to_string())
}

fn verif_seed() -> u64 {
    std::env::var("VERIF_SEED").ok().and_then(|s| s.parse().ok()).unwrap_or(1)
}

fn workers() -> usize {
    std::env::var("VERIF_WORKERS")
        .ok()
        .and_then(|s| s.parse().ok())
        .unwrap_or_else(|| std::thread::available_parallelism().map(|n| n.get()).unwrap_or(8).min(16))
}

#[derive(serde::Deserialize, Default)]
struct KnownEntry {
    property: String,
    clause: String,
    site_prefix: String,
    #[serde(default)]
    detail_contains: String,
    what: String,
}
#[derive(serde::Deserialize, Default)]
struct Findings {
    #[serde(default)]
    known: Vec<KnownEntry>,
}

fn load_findings() -> Findings {
    match std::fs::read_to_string(FINDINGS) {
        Ok(s) => match serde_json::from_str(&s) {
            Ok(f) => f,
            Err(e) => {
                eprintln!("HARNESS ERROR: {FINDINGS} does not parse: {e}");
                exit(2);
            },
        },
        Err(_) => Findings::default(),
    }
}

fn known_match<'a>(f: &'a Findings, v: &Violation) -> Option<&'a KnownEntry> {
    f.known.iter().find(|k| {
        k.property == v.prop
            && k.clause == v.clause
            && v.site.starts_with(&k.site_prefix)
            && (k.detail_contains.is_empty() || v.detail.contains(&k.detail_contains))
    })
}

fn self_validate_model() -> (usize, usize) {
    let json = match std::fs::read_to_string(VECTORS) {
        Ok(j) => j,
        Err(e) => {
            eprintln!("HARNESS ERROR: cannot read {VECTORS}: {e}");
            exit(2);
        },
    };
    match refnoise::self_validate(&json) {
        Ok(x) => x,
        Err(e) => {
            eprintln!("HARNESS ERROR: reference model failed its self-validation: {e}");
            exit(2);
        },
    }
}

fn sample_json(r: &RunOut) -> serde_json::Value {
    json!({
        "run_index": r.idx,
        "run_seed": r.seed,
        "scenario": r.cfg.scenario,
        "stratum": r.cfg.stratum,
        "names": r.cfg.nodes.iter().map(|n| n.name.clone()).collect::<Vec<_>>(),
        "ops": r.ops.iter().take(40).map(|o| serde_json::to_value(o).unwrap()).collect::<Vec<_>>(),
        "op_count": r.ops.len(),
        "faults_fired": r.faults,
    })
}

fn cmd_check(id: &str, tier: &str) {
    let t_start = std::time::Instant::now();
    world::install_panic_hook();
    let seed = verif_seed();
    let thorough = tier == "thorough";
    println!("VERIF_SEED={seed} property={id} tier={tier} workers={}", workers());
    let table = checks::check_table();
    let check = match table.iter().find(|c| c.id == id) {
        Some(c) => c,
        None => {
            eprintln!("HARNESS ERROR: no check for {id}");
            exit(2);
        },
    };
    let (nvec, nmsg) = self_validate_model();
    println!("reference model self-validation: {nvec} vectors, {nmsg} messages OK");
    let findings = load_findings();
    let scale: f64 = std::env::var("VERIF_SCALE").ok().and_then(|s| s.parse().ok()).unwrap_or(1.0);

    let mut total_runs = 0u64;
    let mut stats = Stats::default();
    let mut distinct = 0u64;
    let (mut ff, mut fl) = (0u64, 0u64);
    let mut violating: Vec<RunOut> = vec![];
    let mut samples = vec![];
    let mut scen_summ = vec![];
    let mut det_pairs = 0u64;
    let mut grids: Vec<serde_json::Value> = vec![];
    let mut strata: std::collections::BTreeSet<String> = Default::default();
    let mut harness_errors: Vec<String> = vec![];
    for sc in &check.scens {
        let n = ((if thorough { sc.thorough } else { sc.quick }) as f64 * scale).max(1.0) as u64;
        let t0 = std::time::Instant::now();
        let out = farm(sc.f, seed, sc.salt, n, thorough, workers(), true);
        if let Some((idx, ms)) = out.hang {
            // a call that does not return: report with the seed-based replay descriptor
            let path = format!("{REPLAYS}/{id}-hang-{seed}-{}-{idx}.json", sc.name);
            let _ = std::fs::create_dir_all(REPLAYS);
            let _ = std::fs::write(&path, json!({"property": "C10", "clause": "does-not-terminate", "scenario": sc.name, "verif_seed": seed, "run_index": idx, "salt": sc.salt, "stuck_ms": ms}).to_string());
            if id == "C10" {
                println!("VIOLATION property=C10 replay={path}");
                exit(1);
            } else {
                eprintln!("HARNESS ERROR: run {idx} of {} did not return within 60 s (reported by the C10 check)", sc.name);
                exit(2);
            }
        }
        for hp in out.harness_panics.iter().take(5) {
            harness_errors.push(format!("harness panic in scenario {}: {hp}", sc.name));
        }
        // determinism: re-execute a slice of the runs sequentially and compare trace hashes
        let k = if n < 100 { 1 } else { (n / 100).clamp(20, 300) };
        for idx in 0..k {
            let rs = run::run_seed(prng::mix(seed, sc.salt), idx);
            let r = (sc.f)(idx, rs, thorough);
            det_pairs += 1;
            match out.per_run_traces.binary_search_by_key(&idx, |x| x.0) {
                Ok(p) if out.per_run_traces[p].1 == r.trace => {},
                _ => harness_errors.push(format!("nondeterminism: scenario {} run {idx} gave a different trace on re-execution", sc.name)),
            }
        }
        let secs = t0.elapsed().as_secs_f64();
        println!(
            "scenario {:<20} runs={} fault_free={} faulted={} distinct={} steps={} violating_runs={} wall={:.1}s",
            sc.name,
            out.runs,
            out.fault_free_runs,
            out.faulted_runs,
            out.distinct.len(),
            out.stats.steps,
            out.violating_runs,
            secs
        );
        scen_summ.push(json!({"scenario": sc.name, "runs": out.runs, "fault_free_runs": out.fault_free_runs, "faulted_runs": out.faulted_runs, "distinct_abstract_traces": out.distinct.len(), "steps": out.stats.steps, "wall_s": secs, "combined_trace_hash": format!("{:016x}", out.combined_trace)}));
        if let Some(space) = checks::grid_space(sc.name, thorough) {
            grids.push(json!({"grid": sc.name, "space": space, "runs": out.runs, "enumerated_completely": out.runs >= space}));
        }
        total_runs += out.runs;
        strata.extend(out.strata.iter().cloned());
        stats.merge(&out.stats);
        distinct += out.distinct.len() as u64;
        ff += out.fault_free_runs;
        fl += out.faulted_runs;
        violating.extend(out.violating);
        for s in out.samples.iter().take(2) {
            samples.push(sample_json(s));
        }
    }
    // finite enumerations
    let mut enum_out = enums::EnumOut::default();
    for e in &check.enumerations {
        enums::run_enumeration(e, id, thorough, seed, &mut enum_out);
    }
    total_runs += enum_out.evaluations;
    distinct += enum_out.distinct;
    samples.extend(enum_out.samples.iter().cloned());
    for (k, v) in &enum_out.probes {
        *stats.probes.entry(k).or_insert(0) += v;
    }
    harness_errors.extend(enum_out.harness_errors.iter().cloned());

    // ---- violations of this property
    let mut all: Vec<(Violation, Option<RunOut>)> = vec![];
    for r in &violating {
        for v in &r.viol {
            if v.prop == "HARNESS" {
                harness_errors.push(format!("{}: {}", v.clause, v.detail));
            }
            if v.prop == id {
                all.push((v.clone(), Some(r.clone())));
            }
        }
    }
    for v in &enum_out.viol {
        if v.0.prop == id {
            all.push((v.0.clone(), v.1.clone()));
        }
    }
    // one representative (lowest run index) per class
    let mut classes: BTreeMap<(String, String, String), (Violation, Option<RunOut>, u64)> = BTreeMap::new();
    for (v, r) in all {
        let key = (v.prop.clone(), v.clause.clone(), v.site.clone());
        let e = classes.entry(key).or_insert((v.clone(), r.clone(), 0));
        e.2 += 1;
    }
    let mut n_viol = 0;
    let mut n_known = 0;
    let mut known_lines = std::collections::BTreeSet::new();
    let mut viol_lines = vec![];
    let _ = std::fs::create_dir_all(REPLAYS);
    let mut shrunk_budget = 6;
    for ((prop, clause, site), (v, r, count)) in &classes {
        if let Some(k) = known_match(&findings, v) {
            n_known += 1;
            known_lines.insert(format!("KNOWN-FINDING: property={} {}", prop, k.what));
            continue;
        }
        n_viol += 1;
        let path = match r {
            Some(r) => {
                let (cfg_min, ops) = if shrunk_budget > 0 {
                    shrunk_budget -= 1;
                    let o = shrink(&r.cfg, &r.ops, &r.mode, prop, clause);
                    run::shrink_cfg(&r.cfg, &o, &r.mode, prop, clause)
                } else {
                    (r.cfg.clone(), r.ops.clone())
                };
                let rf = ReplayFile {
                    property: prop.clone(),
                    clause: clause.clone(),
                    site: site.clone(),
                    detail: v.detail.clone(),
                    verif_seed: seed,
                    run_index: r.idx,
                    run_seed: r.seed,
                    cfg: cfg_min,
                    ops,
                    original_op_count: r.ops.len(),
                    mode: r.mode.clone(),
                    build: if cfg!(feature = "hooks") { "main".into() } else { "plain".into() },
                };
                let site_tag: String = site.chars().map(|c| if c.is_ascii_alphanumeric() { c } else { '_' }).take(48).collect();
                let path = format!("{REPLAYS}/{}-{}-{}-{}-{}-{}.json", prop, seed, r.cfg.scenario, r.idx, clause, site_tag);
                std::fs::write(&path, serde_json::to_string_pretty(&rf).unwrap()).unwrap();
                // the minimised file must reproduce the class in a fresh process
                let st = std::process::Command::new(std::env::current_exe().unwrap()).arg("replay").arg(&path).arg("--quiet").status();
                match st {
                    Ok(s) if s.code() == Some(1) => {},
                    other => harness_errors.push(format!("replay of {path} did not reproduce the violation ({other:?})")),
                }
                path
            },
            None => {
                let path = format!("{REPLAYS}/{}-{}-enum-{}.json", prop, seed, n_viol);
                std::fs::write(&path, serde_json::to_string_pretty(&json!({"property": prop, "clause": clause, "site": site, "detail": v.detail, "mode": "enumeration"})).unwrap()).unwrap();
                path
            },
        };
        viol_lines.push(format!("VIOLATION property={prop} replay={path}"));
        println!("  class ({clause} @ {site}) x{count}: {}", v.detail);
    }
    for l in &known_lines {
        println!("{l}");
    }

    // ---- second build: the same check, at a quarter of the scale, by the simulator compiled
    // against snow as a user's release build has it (no verif-hooks / risky-raw-split features,
    // no debug assertions, no overflow checks): code that exists only there is otherwise never run
    let mut second_build = json!({"status": "this is the second build"});
    if cfg!(feature = "hooks") {
        let plain = std::env::current_exe().ok().and_then(|p| p.parent().and_then(|d| d.parent()).map(|t| t.join("plain").join("snowsim")));
        second_build = match plain {
            Some(p) if p.exists() => {
                // the second build's own evidence file is scratch (its summary goes into ours)
                let child_ev = match std::env::current_exe().ok().and_then(|p| p.parent().and_then(|d| d.parent()).map(|t| t.join("second-build-evidence"))) {
                    Some(d) => d.display().to_string(),
                    None => format!("{}-second-build", evidence_dir()),
                };
                let out = std::process::Command::new(&p)
                    .arg("check")
                    .arg(id)
                    .arg(tier)
                    .env("VERIF_SCALE", format!("{}", scale * 0.25))
                    .env("VERIF_EVIDENCE_DIR", &child_ev)
                    .output();
                match out {
                    Ok(o) => {
                        let text = String::from_utf8_lossy(&o.stdout).to_string();
                        let runs = text.lines().filter_map(|l| l.trim().strip_prefix("runs=")).filter_map(|r| r.split_whitespace().next().and_then(|n| n.parse::<u64>().ok())).last().unwrap_or(0);
                        let code = o.status.code().unwrap_or(2);
                        for l in text.lines().filter(|l| l.starts_with("  class")) {
                            println!("  [second build]{}", &l[1..]);
                        }
                        if code == 1 {
                            for l in text.lines().filter(|l| l.starts_with("VIOLATION ")) {
                                viol_lines.push(l.to_string());
                            }
                            n_viol += text.lines().filter(|l| l.starts_with("VIOLATION ")).count();
                        } else if code != 0 {
                            harness_errors.push(format!("second build ({}) ended with exit code {code}: {}", p.display(), String::from_utf8_lossy(&o.stderr).lines().take(3).collect::<Vec<_>>().join(" | ")));
                        }
                        println!("second build (plain snow, scale {:.2}): runs={runs} exit={code}", scale * 0.25);
                        json!({"status": "ran", "snow_build": "release profile without debug assertions and overflow checks; cargo features ring-resolver, use-p256, use-xchacha20poly1305 only", "scale": scale * 0.25, "runs": runs, "exit_code": code})
                    },
                    Err(e) => {
                        harness_errors.push(format!("second build could not be started: {e}"));
                        json!({"status": "failed to start"})
                    },
                }
            },
            _ => json!({"status": "absent (only ./check and setup_cmd build it)"}),
        };
    }

    // ---- evidence
    let wall = t_start.elapsed().as_secs_f64();
    let faults: BTreeMap<String, u64> = stats.faults.iter().map(|(k, v)| (k.to_string(), *v)).collect();
    let probes: BTreeMap<String, u64> = stats.probes.iter().map(|(k, v)| (k.to_string(), *v)).collect();
    let mut results: Vec<(String, u64)> = stats.results.iter().map(|(k, v)| (k.clone(), *v)).collect();
    results.sort_by(|a, b| b.1.cmp(&a.1));
    results.truncate(40);
    let ev = json!({
        "property_id": id,
        "tier": tier,
        "seed": seed,
        "level": check.level,
        "wall_s": wall,
        "violations": n_viol,
        "coverage": {
            "evaluations": total_runs,
            "distinct_nontrivial": distinct,
            "rule": check.rule,
            "samples": samples,
            "exhaustive": enum_out.exhaustive && check.scens.is_empty(),
            "exhaustive_parts": enum_out.exhaustive_parts,
            "runs_per_hour": (total_runs as f64 / wall * 3600.0) as u64,
            "sim_steps": stats.steps,
            "simulated_time_note": "snow has no clock; simulated time is reported as simulated steps (operations executed)",
            "fault_counts_fired": faults,
            "fault_free_runs": ff,
            "faulted_runs": fl,
            "rare_probes": probes,
            "result_classes_top": results.into_iter().map(|(k, v)| json!([k, v])).collect::<Vec<_>>(),
            "distinct_states": stats.states.len(),
            "strata_covered": strata.len(),
            "strata_total": 38 * 4 * 24,
            "strata_note": "stratum = pattern x psk class {none, single, multi, all} x DH x cipher x hash",
            "scenarios": scen_summ,
            "enumerations": enum_out.summary,
            "index_decoded_grids": grids,
            "components_real": ["snow::Builder", "name parser", "HandshakeState", "SymmetricState", "CipherState", "TransportState", "StatelessTransportState", "DefaultResolver (RustCrypto primitives)", "RingResolver (ring)", "FallbackResolver"],
            "components_stub": ["network link (in-memory, simulator-owned)", "random source (SimRng via CryptoResolver::resolve_rng)", "application drivers", "recording pass-through Cipher (when enabled)", "resolver-lacking-a-primitive wrappers"],
            "model_selfcheck": {"vectors": nvec, "messages": nmsg, "file": "vectors/cacophony.txt (Curve25519 vectors)"},
            "determinism_pairs": det_pairs,
            "aborted_by_panic": stats.aborted_by_panic,
            "known_findings_hit": n_known,
            "workers": workers(),
            "second_build": second_build,
        },
        "assumptions": [
            "reference model refnoise (validated against the cacophony vectors at the start of this run)",
            "RustCrypto hmac/hkdf/chacha20poly1305/aes-gcm, x25519-dalek and p256 crates as primitive oracles",
            "negligible-probability cryptographic events (forgery, hash collision, invalid random P-256 scalar) are ignored",
            "a clean batch is evidence over the explored runs, not a proof"
        ]
    });
    let _ = std::fs::create_dir_all(evidence_dir());
    std::fs::write(format!("{}/{id}.json", evidence_dir()), serde_json::to_string_pretty(&ev).unwrap()).unwrap();
    println!("evidence written: {}/{id}.json ", evidence_dir());
    println!(" runs={total_runs} distinct_nontrivial={distinct} wall={wall:.1}s");

    for e in harness_errors.iter().take(10) {
        eprintln!("HARNESS ERROR: {e}");
    }
    // a property violation takes precedence: e.g. an ephemeral drawn from outside the resolver's
    // random source is both a C06 violation and a source of run-to-run nondeterminism
    if !viol_lines.is_empty() {
        for l in &viol_lines {
            println!("{l}");
        }
        exit(1);
    }
    if !harness_errors.is_empty() {
        exit(2);
    }
    println!("OK property={id} held on everything explored");
}

fn cmd_replay(path: &str, quiet: bool) {
    world::install_panic_hook();
    let s = std::fs::read_to_string(path).unwrap_or_else(|e| {
        eprintln!("HARNESS ERROR: cannot read {path}: {e}");
        exit(2)
    });
    let rf: ReplayFile = match serde_json::from_str(&s) {
        Ok(r) => r,
        Err(e) => {
            eprintln!("HARNESS ERROR: {path} is not an op-list replay file ({e}); enumeration/hang descriptors are re-run through the check itself");
            exit(2);
        },
    };
    if rf.build == "plain" && cfg!(feature = "hooks") {
        // found by the second build: re-execute there
        let plain = std::env::current_exe().ok().and_then(|p| p.parent().and_then(|d| d.parent()).map(|t| t.join("plain").join("snowsim")));
        match plain {
            Some(p) if p.exists() => {
                let mut c = std::process::Command::new(p);
                c.arg("replay").arg(path);
                if quiet {
                    c.arg("--quiet");
                }
                exit(c.status().ok().and_then(|s| s.code()).unwrap_or(2));
            },
            _ => {
                eprintln!("HARNESS ERROR: {path} was recorded by the second build, which is not present (run ./check once to build it)");
                exit(2);
            },
        }
    }
    let e = exec_mode(&rf.cfg, &rf.ops, &rf.mode);
    let mut hit = false;
    for v in &e.viol {
        if v.prop == rf.property && v.clause == rf.clause {
            hit = true;
            if !quiet {
                println!("reproduced: property={} clause={} site={} op={} detail={}", v.prop, v.clause, v.site, v.op_index, v.detail);
            }
        }
    }
    if !quiet {
        println!("ops={} (original {}), mode={}, names={:?}", rf.ops.len(), rf.original_op_count, rf.mode, rf.cfg.nodes.iter().map(|n| &n.name).collect::<Vec<_>>());
        // outcomes of the plain interpretation, for the reader of the replay
        let mut w = world::World::new(rf.cfg.clone());
        w.keep_outcomes = true;
        for (i, op) in rf.ops.iter().enumerate() {
            w.apply(i, op);
        }
        for (i, op) in rf.ops.iter().enumerate() {
            let oc: Vec<&str> = w.outcomes.iter().filter(|o| o.0 == i).map(|o| o.1.as_str()).collect();
            println!("  {i:3}: {op:?}  -> {oc:?}");
        }
    }
    if hit {
        println!("VIOLATION property={} replay={}", rf.property, path);
        exit(1);
    }
    if !quiet {
        println!("not reproduced");
    }
}

/// Determinism proof: every scenario, many seeds, 1 worker vs many workers, per-run trace diff.
fn cmd_selftest(n: u64) {
    world::install_panic_hook();
    let seed = verif_seed();
    let table = checks::check_table();
    let mut seen = std::collections::BTreeSet::new();
    let mut bad = 0;
    for c in &table {
        for sc in &c.scens {
            if !seen.insert(sc.name) {
                continue;
            }
            // a grid never needs more runs than its space (the long-history grids are slow)
            let n = n.min(sc.quick);
            let a = farm(sc.f, seed, sc.salt, n, false, 1, true);
            let b = farm(sc.f, seed, sc.salt, n, false, workers(), true);
            let same = a.per_run_traces == b.per_run_traces && a.combined_trace == b.combined_trace && a.distinct == b.distinct;
            println!("selftest {:<20} runs={} traces_equal={} combined={:016x}", sc.name, n, same, a.combined_trace);
            if !same {
                bad += 1;
            }
        }
    }
    if bad > 0 {
        eprintln!("HARNESS ERROR: nondeterminism in {bad} scenarios");
        exit(2);
    }
}

/// Print per-run traces for cross-process comparison.
fn cmd_traces(scenario: &str, n: u64) {
    world::install_panic_hook();
    let seed = verif_seed();
    for c in checks::check_table() {
        for sc in &c.scens {
            if sc.name == scenario {
                let a = farm(sc.f, seed, sc.salt, n, false, workers(), true);
                for (i, t) in a.per_run_traces {
                    println!("{i} {t:016x}");
                }
                return;
            }
        }
    }
}

/// Debug aid: execute one run of a scenario, print its ops and violations.
fn cmd_dump(scenario: &str, idx: u64) {
    world::install_panic_hook();
    let seed = verif_seed();
    for c in checks::check_table() {
        for sc in &c.scens {
            if sc.name == scenario {
                let rs = run::run_seed(prng::mix(seed, sc.salt), idx);
                let r = (sc.f)(idx, rs, false);
                println!("names={:?} stratum={}", r.cfg.nodes.iter().map(|n| (&n.name, n.backend)).collect::<Vec<_>>(), r.cfg.stratum);
                let mut w = world::World::new(r.cfg.clone());
                w.keep_outcomes = true;
                for (i, op) in r.ops.iter().enumerate() {
                    w.apply(i, op);
                }
                for (i, op) in r.ops.iter().enumerate() {
                    let oc: Vec<&str> = w.outcomes.iter().filter(|o| o.0 == i).map(|o| o.1.as_str()).collect();
                    println!("  {i:3}: {op:?}  -> {oc:?}");
                    for v in r.viol.iter().filter(|v| v.op_index == i) {
                        println!("       !! {} {} @ {}: {}", v.prop, v.clause, v.site, v.detail);
                    }
                }
                for v in r.viol.iter().filter(|v| v.op_index >= r.ops.len()) {
                    println!("  end !! {} {} @ {}: {}", v.prop, v.clause, v.site, v.detail);
                }
                return;
            }
        }
    }
}

/// Debug aid: all violation classes (all properties) seen in n runs of a scenario.
fn cmd_survey(scenario: &str, n: u64) {
    world::install_panic_hook();
    let seed = verif_seed();
    for c in checks::check_table() {
        for sc in &c.scens {
            if sc.name == scenario {
                let t0 = std::time::Instant::now();
                let a = farm(sc.f, seed, sc.salt, n, false, workers(), false);
                let mut classes: BTreeMap<(String, String, String), (u64, String, u64)> = BTreeMap::new();
                for r in &a.violating {
                    for v in &r.viol {
                        let e = classes.entry((v.prop.clone(), v.clause.clone(), v.site.clone())).or_insert((0, format!("{} | {}", v.detail, r.cfg.nodes[0].name), r.idx));
                        e.0 += 1;
                    }
                }
                for ((p, c, s), (n, d, idx)) in &classes {
                    println!("{p} {c} @ {s} x{n} (run {idx}): {d}");
                }
                for hp in a.harness_panics.iter().take(10) {
                    println!("HARNESS PANIC {hp}");
                }
                println!("runs={} violating={} wall={:.2}s faults={:?}", a.runs, a.violating.len(), t0.elapsed().as_secs_f64(), a.stats.faults);
                println!("results: {:?}", a.stats.results);
                println!("probes: {:?}", a.stats.probes);
                return;
            }
        }
    }
}

fn main() {
    let args: Vec<String> = std::env::args().collect();
    match args.get(1).map(|s| s.as_str()) {
        Some("check") if args.len() >= 4 => cmd_check(&args[2], &args[3]),
        Some("replay") if args.len() >= 3 => cmd_replay(&args[2], args.iter().any(|a| a == "--quiet")),
        Some("selftest") => cmd_selftest(args.get(2).and_then(|s| s.parse().ok()).unwrap_or(2000)),
        Some("traces") if args.len() >= 4 => cmd_traces(&args[2], args[3].parse().unwrap_or(100)),
        Some("dump") if args.len() >= 4 => cmd_dump(&args[2], args[3].parse().unwrap_or(0)),
        Some("survey") if args.len() >= 4 => cmd_survey(&args[2], args[3].parse().unwrap_or(100)),
        Some("modelcheck") => {
            let (v, m) = self_validate_model();
            println!("model OK: {v} vectors {m} messages");
        },
        _ => {
            eprintln!("usage: snowsim check <ID> <quick|thorough> | replay <file> [--quiet] | selftest [n] | traces <scenario> <n> | modelcheck");
            exit(2);
        },
    }
}
