//! Scenario functions (configuration + profile + mode) and the per-property check table.

use crate::ops::*;
use crate::prng::Rng;
use crate::refnoise::{DhK, Proto};
use crate::run::*;
use crate::scen::*;
use crate::seam::{Backend, Prim, RngMode};
use crate::world::World;

pub struct Plan<'a> {
    pub scenario: &'a str,
    pub opts: CfgOpts,
    pub profile: Profile,
    pub mode: &'a str,
    /// run the parallel session(s) first so that their messages exist for substitution
    pub warm_parallel: bool,
}

fn finish_run(idx: u64, seed: u64, cfg: RunCfg, ops: Vec<Op>, mut w: World, mode: &str) -> RunOut {
    w.finish();
    let failed: Vec<bool> = vec![];
    let _ = failed;
    let mut out = RunOut {
        idx,
        seed,
        cfg: cfg.clone(),
        ops: ops.clone(),
        mode: mode.to_string(),
        viol: std::mem::take(&mut w.viol),
        stats: std::mem::take(&mut w.stats),
        trace: w.trace.0,
        abstract_trace: w.abstract_trace.0,
        faults: w.faults_in_run,
    };
    match mode {
        "control" => {
            // re-interpret the recorded ops (also a replay self-check) and compare with control
            let e = exec_plain(&cfg, &ops);
            if e.trace != out.trace {
                out.viol.push(Violation {
                    prop: "HARNESS".into(),
                    clause: "replay-differs-from-live-run".into(),
                    site: "control".into(),
                    detail: String::new(),
                    op_index: usize::MAX,
                });
            }
            if e.failed_ops.iter().any(|f| *f) {
                out.stats.probe("control-run-compared");
            } else {
                out.stats.probe("control-run-not-needed(no-failed-call)");
            }
            out.viol.extend(control_compare(&cfg, &ops, &e));
        },
        "twin" => {
            let (v, execs) = twin_compare(&cfg, &ops);
            for e in execs {
                out.viol.extend(e.viol);
            }
            out.stats.probe("twin-universes-compared");
            out.viol.extend(v);
        },
        _ => {},
    }
    out.viol.sort();
    out.viol.dedup();
    out
}

pub fn run_plan(idx: u64, seed: u64, plan: &Plan, tweak: impl FnOnce(&mut RunCfg, &mut Rng)) -> RunOut {
    let mut rng = gen_rng(seed);
    let mut cfg = gen_cfg(&mut rng, idx, plan.scenario, &plan.opts);
    tweak(&mut cfg, &mut rng);
    let mut profile = plan.profile.swarm(&mut rng);
    // benign variation every scenario gets (the mutation rounds showed that a fault kind which is
    // present but never meets exact-fit buffers, accessor queries or large payloads hides bugs)
    profile.wild_buffers = true;
    profile.query = profile.query.max(40);
    profile.big_payloads = profile.big_payloads.max(10);
    let mut w = World::new(cfg.clone());
    let ops = {
        let mut d = Driver::new(&mut w, &mut rng);
        let sessions = cfg.nodes.len() / 2;
        let honest = Profile { tr_steps: (2, 6), stateless: 500, ..Profile::default() };
        if plan.warm_parallel {
            for s in 1..sessions {
                if d.handshake(s, &honest) {
                    d.convert(s, &honest);
                    d.transport(s, &honest);
                }
            }
        }
        if d.handshake(0, &profile) {
            d.convert(0, &profile);
            d.transport(0, &profile);
        }
        d.ops
    };
    finish_run(idx, seed, cfg, ops, w, plan.mode)
}

fn honest_profile() -> Profile {
    Profile { tr_steps: (0, 40), stateless: 500, big_payloads: 25, query: 100, wild_buffers: true, ..Profile::default() }
}

// ------------------------------------------------------------------------------------ scenarios

pub fn sc_interop(idx: u64, seed: u64, _t: bool) -> RunOut {
    let plan = Plan {
        scenario: "interop",
        opts: CfgOpts { late_psk: 0, noncanonical_rs: 40, same_statics: 40, ..CfgOpts::default() },
        profile: Profile { wild_buffers: true, ..honest_profile() },
        mode: "plain",
        warm_parallel: false,
    };
    run_plan(idx, seed, &plan, |_, _| {})
}

pub fn sc_honest(idx: u64, seed: u64, _t: bool) -> RunOut {
    let plan = Plan {
        scenario: "honest",
        opts: CfgOpts { snow_keygen: 500, same_statics: 40, surplus_psk: 60, ..CfgOpts::default() },
        profile: honest_profile(),
        mode: "plain",
        warm_parallel: false,
    };
    run_plan(idx, seed, &plan, |_, _| {})
}

pub fn sc_tamper_hs(idx: u64, seed: u64, _t: bool) -> RunOut {
    let plan = Plan {
        scenario: "tamper-hs",
        opts: CfgOpts { sessions: 2, parallel_same_statics: idx % 3 != 0, surplus_rs: 150, same_statics: 30, evil_pub: 40, ..CfgOpts::default() },
        profile: Profile {
            hs_tamper: 600,
            max_hs_faults: 2,
            tr_steps: (0, 4),
            stateless: 300,
            ..Profile::default()
        },
        mode: "plain",
        warm_parallel: true,
    };
    run_plan(idx, seed, &plan, |_, _| {})
}

pub fn sc_transport_auth(idx: u64, seed: u64, _t: bool) -> RunOut {
    let plan = Plan {
        scenario: "transport-auth",
        opts: CfgOpts { sessions: 2, parallel_same_statics: true, ..CfgOpts::default() },
        profile: Profile {
            tr_steps: (10, 40),
            tr_mutate: 250,
            tr_garbage: 50,
            tr_hist: 150,
            tr_nonce_explicit: 80,
            tr_setsend: 30,
            tr_misuse: 30,
            stateless: 400,
            epilogue: true,
            ..Profile::default()
        },
        mode: "plain",
        warm_parallel: true,
    };
    run_plan(idx, seed, &plan, |_, _| {})
}

pub fn sc_transport_sched(idx: u64, seed: u64, _t: bool) -> RunOut {
    let plan = Plan {
        scenario: "transport-sched",
        opts: CfgOpts::default(),
        profile: Profile {
            tr_steps: (10, 50),
            tr_reorder: 120,
            tr_drop: 60,
            tr_dup: 80,
            tr_delay: 80,
            tr_garbage: 50,
            tr_shortout: 60,
            tr_setrecv: 40,
            tr_mutate: 60,
            tr_hist: 40,
            stateless: 80,
            epilogue: true,
            wild_buffers: true,
            ..Profile::default()
        },
        mode: "plain",
        warm_parallel: false,
    };
    run_plan(idx, seed, &plan, |_, _| {})
}

fn fail_retry_profile() -> Profile {
    Profile {
        wild_buffers: true,
        hs_fail_write: 400,
        hs_fail_read: 400,
        hs_misuse: 80,
        bad_setpsk: 40,
        max_hs_faults: 4,
        retry_different_payload: true,
        tr_steps: (4, 20),
        tr_shortout: 80,
        tr_shortbuf: 80,
        tr_oversize: 40,
        tr_garbage: 40,
        tr_hist: 40,
        stateless: 200,
        ..Profile::default()
    }
}

/// C06: recording cipher, streaming RNG (fresh ephemerals on retry)
pub fn sc_fail_retry_ledger(idx: u64, seed: u64, _t: bool) -> RunOut {
    let plan = Plan {
        scenario: "fail-retry-ledger",
        opts: CfgOpts { record: true, late_psk: 300, surplus_rs: 150, evil_pub: 60, surplus_psk: 60, deny_rng: 25, ..CfgOpts::default() },
        profile: Profile { tr_rekey: 60, tr_rekey_sync: 40, tr_nonce_explicit: 40, ..fail_retry_profile() },
        mode: "plain",
        warm_parallel: false,
    };
    run_plan(idx, seed, &plan, |_, _| {})
}

/// C07: per-call RNG and comparison with the control run (failed calls removed)
pub fn sc_fail_retry_control(idx: u64, seed: u64, _t: bool) -> RunOut {
    let mut profile = fail_retry_profile();
    profile.tr_rekey_sync = 40;
    profile.tr_rekey = 30;
    profile.tr_setrecv = 30;
    let plan = Plan {
        scenario: "fail-retry-control",
        opts: CfgOpts { rng_mode: RngMode::PerCall, late_psk: 300, sessions: 2, surplus_rs: 150, evil_pub: 60, ..CfgOpts::default() },
        profile,
        mode: "control",
        warm_parallel: true,
    };
    run_plan(idx, seed, &plan, |_, _| {})
}

/// C08: one context item differs between the two peers of session 0
pub fn sc_mismatch(idx: u64, seed: u64, _t: bool) -> RunOut {
    let plan = Plan {
        scenario: "mismatch",
        opts: CfgOpts::default(),
        profile: Profile { tr_steps: (2, 10), stateless: 500, ..Profile::default() },
        mode: "plain",
        warm_parallel: false,
    };
    run_plan(idx, seed, &plan, |cfg, rng| {
        apply_mismatch(cfg, rng);
    })
}

/// C08 (transport clause): two internally consistent sessions that differ in one context item;
/// transport messages of one are presented to the other.
pub fn sc_mismatch_cross(idx: u64, seed: u64, _t: bool) -> RunOut {
    let plan = Plan {
        scenario: "mismatch-cross",
        opts: CfgOpts { sessions: 2, parallel_same_statics: true, ..CfgOpts::default() },
        profile: Profile { tr_steps: (6, 20), tr_hist: 300, stateless: 500, ..Profile::default() },
        mode: "plain",
        warm_parallel: true,
    };
    run_plan(idx, seed, &plan, |cfg, rng| {
        // make session 1 differ from session 0 in exactly one item, consistently on both of its
        // nodes
        let mut two = RunCfg { nodes: vec![cfg.nodes[2].clone(), cfg.nodes[3].clone()], ..cfg.clone() };
        apply_consistent_variation(&mut two, rng);
        cfg.nodes[2] = two.nodes[0].clone();
        cfg.nodes[3] = two.nodes[1].clone();
        cfg.stratum = format!("{}/cross", cfg.stratum);
    })
}

fn flip_bit(v: &mut [u8], rng: &mut Rng) {
    if v.is_empty() {
        return;
    }
    let p = rng.usize_below(v.len());
    v[p] ^= 1 << rng.below(8);
}

/// Change one context item on BOTH nodes of a two-node config (stays internally consistent).
fn apply_consistent_variation(cfg: &mut RunCfg, rng: &mut Rng) {
    let proto = Proto::parse(&cfg.nodes[0].name).unwrap();
    let mut choices = vec!["prologue"];
    if proto.is_psk() {
        choices.push("psk");
    }
    let c = *rng.pick(&choices);
    match c {
        "prologue" => {
            let mut p = cfg.nodes[0].prologue.clone();
            if p.is_empty() || rng.chance(1, 3) {
                p.push(rng.below(256) as u8);
            } else {
                flip_bit(&mut p, rng);
            }
            cfg.nodes[0].prologue = p.clone();
            cfg.nodes[1].prologue = p;
        },
        _ => {
            let k = rng.usize_below(cfg.nodes[0].psks.len());
            let mut key = cfg.nodes[0].psks[k].key.clone();
            flip_bit(&mut key, rng);
            let idx = cfg.nodes[0].psks[k].idx;
            for n in cfg.nodes.iter_mut() {
                for p in n.psks.iter_mut() {
                    if p.idx == idx {
                        p.key = key.clone();
                    }
                }
            }
        },
    }
}

/// Make the two peers of session 0 disagree on exactly one context item (sometimes two).
pub fn apply_mismatch(cfg: &mut RunCfg, rng: &mut Rng) {
    let proto = Proto::parse(&cfg.nodes[0].name).unwrap();
    let mut choices: Vec<&str> = vec!["prologue-bit", "prologue-len", "cipher", "hash", "pattern"];
    if proto.is_psk() {
        choices.push("psk-bit");
        choices.push("psk-bit");
        choices.push("psk-long-via-set_psk");
        choices.push("psk-short-via-set_psk");
    }
    choices.push("big-prologue-tail");
    if proto.is_psk() {
        choices.push("psk-replace-one-side");
        choices.push("psk-spelling");
    }
    if proto.psk_mods.len() == 1 {
        choices.push("psk-index");
    }
    if proto.psk_mods.len() >= 2 {
        choices.push("psk-order");
    }
    if !proto.needs_remote_static(true) && !proto.needs_remote_static(false) {
        choices.push("dh");
    }
    if proto.needs_remote_static(true) {
        choices.push("rs-initiator");
        choices.push("rs-initiator-bit255");
    }
    if proto.needs_remote_static(false) {
        choices.push("rs-responder");
    }
    let n = if rng.chance(1, 8) { 2 } else { 1 };
    let mut label = vec![];
    let mut forced_mismatch = false;
    for _ in 0..n {
        let c = *rng.pick(&choices);
        let side = rng.usize_below(2);
        label.push(c);
        match c {
            "prologue-bit" => {
                if cfg.nodes[side].prologue.is_empty() {
                    cfg.nodes[side].prologue.push(0);
                } else {
                    flip_bit(&mut cfg.nodes[side].prologue, rng);
                }
            },
            "prologue-len" => {
                if cfg.nodes[side].prologue.is_empty() || rng.chance(1, 2) {
                    cfg.nodes[side].prologue.push(0);
                } else {
                    cfg.nodes[side].prologue.pop();
                }
            },
            "psk-bit" => {
                let k = rng.usize_below(cfg.nodes[side].psks.len());
                flip_bit(&mut cfg.nodes[side].psks[k].key, rng);
            },
            "psk-long-via-set_psk" => {
                // one side tries to install, through set_psk, a longer key that merely starts with
                // the agreed 32 bytes
                let k = rng.usize_below(cfg.nodes[side].psks.len());
                let extra = rng.range(1, 32) as usize;
                let tail = rng.bytes(extra);
                cfg.nodes[side].psks[k].key.extend_from_slice(&tail);
                cfg.nodes[side].psks[k].at_boot = false;
            },
            "psk-short-via-set_psk" => {
                // one side tries to install, through set_psk, only the first L bytes of a key
                // whose remaining bytes are zero on the other side (an implementation that pads a
                // short key with zeros would let the two meet)
                let k = rng.usize_below(cfg.nodes[side].psks.len());
                let l = *rng.pick(&[0usize, 1, 16, 31]);
                let idx = cfg.nodes[side].psks[k].idx;
                cfg.nodes[side].psks[k].key.truncate(l);
                cfg.nodes[side].psks[k].at_boot = false;
                let prefix = cfg.nodes[side].psks[k].key.clone();
                for p in cfg.nodes[1 - side].psks.iter_mut().filter(|p| p.idx == idx) {
                    let mut full = prefix.clone();
                    full.resize(32, 0);
                    p.key = full;
                }
            },
            "psk-replace-one-side" => {
                // the configurations are equal; one side replaces its PSK through set_psk before
                // the handshake (the driver issues the call, see Driver::handshake)
                label.pop();
                label.push(if side == 0 { "psk-replace-one-side-a" } else { "psk-replace-one-side-b" });
                forced_mismatch = true;
            },
            "psk-spelling" => {
                // the same modifier written with a leading zero: another protocol name
                let proto = Proto::parse(&cfg.nodes[side].name).unwrap();
                let parts: Vec<String> = cfg.nodes[side].name.split('_').map(|s| s.to_string()).collect();
                let mods: Vec<String> = parts[1][proto.base.len()..].split('+').enumerate().map(|(k, m)| if k == 0 { m.replacen("psk", "psk0", 1) } else { m.to_string() }).collect();
                let newname = format!("Noise_{}{}_{}_{}_{}", proto.base, mods.join("+"), parts[2], parts[3], parts[4]);
                if Proto::parse(&newname).is_ok() && newname.parse::<snow::params::NoiseParams>().is_ok() {
                    cfg.nodes[side].name = newname;
                }
            },
            "psk-order" => {
                // the same modifiers spelled in another order: a different protocol name
                let proto = Proto::parse(&cfg.nodes[side].name).unwrap();
                let parts: Vec<String> = cfg.nodes[side].name.split('_').map(|s| s.to_string()).collect();
                let mut mods: Vec<String> = parts[1][proto.base.len()..].split('+').map(|m| m.to_string()).collect();
                if mods.len() >= 2 {
                    mods.rotate_left(1);
                    let newname = format!("Noise_{}{}_{}_{}_{}", proto.base, mods.join("+"), parts[2], parts[3], parts[4]);
                    if Proto::parse(&newname).is_ok() {
                        cfg.nodes[side].name = newname;
                    }
                }
            },
            "psk-index" => {
                // same PSK value, another (valid) position
                let proto = Proto::parse(&cfg.nodes[side].name).unwrap();
                if proto.psk_mods.len() == 1 {
                    let old = proto.psk_mods[0];
                    let cands: Vec<u8> = (0..=proto.n_messages() as u8).filter(|m| *m != old).collect();
                    if !cands.is_empty() {
                        let newi = cands[rng.usize_below(cands.len())];
                        let parts: Vec<String> = cfg.nodes[side].name.split('_').map(|s| s.to_string()).collect();
                        let newname = format!("Noise_{}psk{}_{}_{}_{}", proto.base, newi, parts[2], parts[3], parts[4]);
                        if Proto::parse(&newname).is_ok() {
                            cfg.nodes[side].name = newname;
                            for p in cfg.nodes[side].psks.iter_mut() {
                                p.idx = newi;
                            }
                        }
                    }
                }
            },
            "dh" => {
                // the other DH function; this side gets fresh keys of the right kind (no static key
                // is pre-shared in this pattern)
                let parts: Vec<String> = cfg.nodes[side].name.split('_').map(|s| s.to_string()).collect();
                let newdh = if parts[2] == "25519" { "P256" } else { "25519" };
                let newname = format!("{}_{}_{}_{}_{}", parts[0], parts[1], newdh, parts[3], parts[4]);
                if let Ok(np) = Proto::parse(&newname) {
                    cfg.nodes[side].name = newname;
                    if cfg.nodes[side].s_priv.is_some() {
                        cfg.nodes[side].s_priv = Some(gen_static(rng, np.dh).0);
                    }
                }
            },
            "big-prologue-tail" => {
                // a shared prologue longer than 65535 bytes; the peers differ only near its end
                let len = *rng.pick(&[65_536usize, 65_537, 70_000, 131_071]);
                let big = rng.bytes(len);
                cfg.nodes[0].prologue = big.clone();
                cfg.nodes[1].prologue = big;
                match rng.below(3) {
                    0 => {
                        let l = cfg.nodes[side].prologue.len();
                        cfg.nodes[side].prologue[l - 1] ^= 1;
                    },
                    1 => cfg.nodes[side].prologue.push(0),
                    _ => {
                        cfg.nodes[side].prologue.pop();
                    },
                }
            },
            "rs-initiator" | "rs-initiator-bit255" => {
                // the initiator believes in a different (valid) responder key
                if c == "rs-initiator-bit255" && proto.dh == DhK::X25519 {
                    if let Some(r) = cfg.nodes[0].rs_pub.as_mut() {
                        r[31] ^= 0x80;
                    }
                } else {
                    let (_, p) = gen_static(rng, proto.dh);
                    cfg.nodes[0].rs_pub = Some(p);
                }
            },
            "rs-responder" => {
                let (_, p) = gen_static(rng, proto.dh);
                cfg.nodes[1].rs_pub = Some(p);
            },
            "cipher" | "hash" | "pattern" => {
                // a name component of the same family; each side gets the keys its own name needs
                let parts: Vec<String> = cfg.nodes[side].name.split('_').map(|s| s.to_string()).collect();
                let proto = Proto::parse(&cfg.nodes[side].name).unwrap();
                let mut parts2 = parts.clone();
                match c {
                    "cipher" => {
                        let alts: Vec<&str> = ["ChaChaPoly", "AESGCM", "XChaChaPoly"].into_iter().filter(|x| *x != parts[3]).collect();
                        parts2[3] = rng.pick(&alts).to_string();
                    },
                    "hash" => {
                        let alts: Vec<&str> = ["SHA256", "SHA512", "BLAKE2s", "BLAKE2b"].into_iter().filter(|x| *x != parts[4]).collect();
                        parts2[4] = rng.pick(&alts).to_string();
                    },
                    _ => {
                        // another base pattern with the same psk modifiers, if they fit
                        let mods = &parts[1][proto.base.len()..];
                        let names = crate::refnoise::pattern_names();
                        for _ in 0..20 {
                            let alt = names[rng.usize_below(names.len())];
                            if alt == proto.base {
                                continue;
                            }
                            let cand = format!("{alt}{mods}");
                            let full = format!("Noise_{cand}_{}_{}_{}", parts[2], parts[3], parts[4]);
                            if Proto::parse(&full).is_ok() {
                                parts2[1] = cand;
                                break;
                            }
                        }
                    },
                }
                let newname = parts2.join("_");
                if let Ok(np) = Proto::parse(&newname) {
                    let node = &mut cfg.nodes[side];
                    let initiator = node.initiator;
                    node.name = newname;
                    // supply exactly the keys the new name needs
                    if np.needs_local_static(initiator) && node.s_priv.is_none() {
                        node.s_priv = Some(gen_static(rng, np.dh).0);
                    }
                    if !np.needs_local_static(initiator) {
                        node.s_priv = None;
                    }
                    if np.needs_remote_static(initiator) && node.rs_pub.is_none() {
                        node.rs_pub = Some(gen_static(rng, np.dh).1);
                    }
                    if !np.needs_remote_static(initiator) {
                        node.rs_pub = None;
                    }
                }
            },
            _ => {},
        }
    }
    // only a real difference counts (two edits may cancel each other)
    let a = &cfg.nodes[0];
    let b = &cfg.nodes[1];
    let pa = Proto::parse(&a.name).ok();
    let pub_of = |n: &NodeCfg| -> Option<Vec<u8>> {
        let p = Proto::parse(&n.name).ok()?;
        n.s_priv.as_ref().and_then(|s| p.dh.pubkey(s))
    };
    let rs_differs = |holder: &NodeCfg, owner: &NodeCfg| -> bool {
        match (&holder.rs_pub, pub_of(owner)) {
            (Some(r), Some(p)) => *r != p,
            _ => false,
        }
    };
    let _ = pa;
    let differ = a.name != b.name
        || a.prologue != b.prologue
        || a.psks.iter().map(|p| (&p.idx, &p.key)).ne(b.psks.iter().map(|p| (&p.idx, &p.key)))
        || rs_differs(a, b)
        || rs_differs(b, a);
    cfg.mismatch = differ || forced_mismatch;
    cfg.stratum = format!("{}/mismatch-{}", cfg.stratum, label.join("+"));
}

pub fn sc_nonce(idx: u64, seed: u64, _t: bool) -> RunOut {
    let plan = Plan {
        scenario: "nonce",
        opts: CfgOpts { record: true, ..CfgOpts::default() },
        profile: Profile {
            tr_steps: (10, 50),
            tr_setsend: 120,
            tr_setrecv: 60,
            tr_nonce_explicit: 100,
            tr_shortbuf: 50,
            tr_oversize: 40,
            tr_shortout: 50,
            tr_mutate: 50,
            tr_garbage: 30,
            tr_rekey: 30,
            tr_rekey_sync: 30,
            stateless: 300,
            query: 50,
            epilogue: true,
            ..Profile::default()
        },
        mode: "plain",
        warm_parallel: false,
    };
    run_plan(idx, seed, &plan, |_, _| {})
}

fn chaos_profile() -> Profile {
    Profile {
        hs_fail_write: 500,
        hs_fail_read: 500,
        hs_tamper: 150,
        hs_misuse: 200,
        early_convert: 30,
        bad_setpsk: 150,
        max_hs_faults: 12,
        retry_different_payload: true,
        tr_steps: (5, 40),
        tr_mutate: 100,
        tr_reorder: 40,
        tr_drop: 20,
        tr_dup: 30,
        tr_delay: 20,
        tr_garbage: 80,
        tr_hist: 60,
        tr_setrecv: 40,
        tr_setsend: 40,
        tr_rekey: 40,
        tr_rekey_sync: 20,
        tr_shortout: 80,
        tr_shortbuf: 100,
        tr_oversize: 40,
        tr_nonce_explicit: 60,
        tr_misuse: 60,
        stateless: 400,
        big_payloads: 40,
        wild_buffers: true,
        epilogue: true,
        query: 100,
    }
}

pub fn sc_chaos(idx: u64, seed: u64, _t: bool) -> RunOut {
    let plan = Plan {
        scenario: "chaos",
        opts: CfgOpts { sessions: 2, late_psk: 200, record: idx % 4 == 0, surplus_rs: 100, evil_pub: 60, noncanonical_rs: 40, ..CfgOpts::default() },
        profile: chaos_profile(),
        mode: "plain",
        warm_parallel: true,
    };
    run_plan(idx, seed, &plan, |_, _| {})
}

/// C10: builder fed with keys / prologues of irregular length, then whatever can be done with
/// the result.
pub fn sc_chaos_keys(idx: u64, seed: u64, _t: bool) -> RunOut {
    let plan = Plan {
        scenario: "chaos-keys",
        opts: CfgOpts { surplus_psk: 100, same_statics: 40, deny_any: 60, deny_rng: 20, ..CfgOpts::default() },
        profile: chaos_profile(),
        mode: "plain",
        warm_parallel: false,
    };
    run_plan(idx, seed, &plan, |cfg, rng| {
        let p256 = cfg.nodes[0].name.contains("P256");
        let lens: [usize; 14] = [0, 1, 16, 31, 32, 33, 56, 57, 64, 65, 66, 100, 128, 200];
        let n = rng.usize_below(2);
        let mut label = String::new();
        match rng.below(6) {
            0 | 1 => {
                let l = *rng.pick(&lens);
                cfg.nodes[n].s_priv = Some(rng.bytes(l));
                label = format!("s_priv-len{l}");
            },
            2 | 3 => {
                let l = *rng.pick(&lens);
                cfg.nodes[n].rs_pub = Some(rng.bytes(l));
                label = format!("rs_pub-len{l}");
            },
            4 if p256 => {
                // special P-256 scalars: 0, n-1, n, 2^256-1
                let nm1 = hex::decode("ffffffff00000000ffffffffffffffffbce6faada7179e84f3b9cac2fc632550").unwrap();
                let nn = hex::decode("ffffffff00000000ffffffffffffffffbce6faada7179e84f3b9cac2fc632551").unwrap();
                let (k, l) = match rng.below(4) {
                    0 => (vec![0u8; 32], "zero"),
                    1 => (nm1, "n-1"),
                    2 => (nn, "n"),
                    _ => (vec![0xFF; 32], "max"),
                };
                cfg.nodes[n].s_priv = Some(k);
                label = format!("p256-scalar-{l}");
            },
            _ => {
                // surplus keys of regular length
                let dh = if p256 { DhK::P256 } else { DhK::X25519 };
                let (s, p) = gen_static(rng, dh);
                if cfg.nodes[n].s_priv.is_none() {
                    cfg.nodes[n].s_priv = Some(s);
                }
                if cfg.nodes[n].rs_pub.is_none() {
                    cfg.nodes[n].rs_pub = Some(p);
                }
                label.push_str("surplus");
            },
        }
        if rng.chance(1, 8) {
            // names that parse but are not buildable: psk positions beyond the pattern
            let parts: Vec<String> = cfg.nodes[n].name.split('_').map(|x| x.to_string()).collect();
            let base = Proto::parse(&cfg.nodes[n].name).map(|p| p.base.clone()).unwrap_or_else(|_| "NN".into());
            let odd = *rng.pick(&["psk10", "psk12", "psk99", "psk100", "psk255", "psk5", "psk9", "psk0+psk10", "fallback", "psk1+fallback"]);
            let newname = format!("Noise_{base}{odd}_{}_{}_{}", parts[2], parts[3], parts[4]);
            for node in cfg.nodes.iter_mut() {
                node.name = newname.clone();
            }
            label.push_str(&format!("+name-{odd}"));
        }
        if rng.chance(1, 6) {
            let idx = *rng.pick(&[9u8, 10, 11, 100, 255]);
            cfg.nodes[n].psks.push(PskCfg { idx, key: rng.bytes(32), at_boot: true });
            label.push_str(&format!("+psk-slot{idx}"));
        }
        if rng.chance(1, 4) {
            let pl = *rng.pick(&[0usize, 1, 65_535, 65_536, 100_000]);
            cfg.nodes[n].prologue = rng.bytes(pl);
        }
        cfg.stratum = format!("{}/{}", cfg.stratum, label);
    })
}

pub fn sc_statemachine(idx: u64, seed: u64, _t: bool) -> RunOut {
    let plan = Plan {
        scenario: "statemachine",
        opts: CfgOpts { late_psk: 100, ..CfgOpts::default() },
        profile: Profile {
            hs_misuse: 500,
            early_convert: 60,
            hs_fail_write: 100,
            hs_fail_read: 200,
            bad_setpsk: 80,
            max_hs_faults: 14,
            tr_steps: (0, 14),
            tr_misuse: 300,
            tr_garbage: 50,
            stateless: 500,
            query: 200,
            ..Profile::default()
        },
        mode: "plain",
        warm_parallel: false,
    };
    run_plan(idx, seed, &plan, |_, _| {})
}

pub fn sc_framing(idx: u64, seed: u64, _t: bool) -> RunOut {
    let plan = Plan {
        scenario: "framing",
        opts: CfgOpts::default(),
        profile: Profile {
            hs_fail_write: 350,
            hs_fail_read: 150,
            max_hs_faults: 6,
            tr_steps: (4, 24),
            tr_shortbuf: 120,
            tr_oversize: 80,
            tr_garbage: 80,
            tr_shortout: 60,
            stateless: 400,
            big_payloads: 250,
            wild_buffers: true,
            ..Profile::default()
        },
        mode: "plain",
        warm_parallel: false,
    };
    run_plan(idx, seed, &plan, |_, _| {})
}

pub fn sc_rekey(idx: u64, seed: u64, _t: bool) -> RunOut {
    let plan = Plan {
        scenario: "rekey",
        opts: CfgOpts::default(),
        profile: Profile {
            tr_steps: (10, 40),
            tr_rekey: 150,
            tr_rekey_sync: 120,
            tr_setrecv: 40,
            tr_setsend: 40,
            stateless: 400,
            epilogue: true,
            ..Profile::default()
        },
        mode: "plain",
        warm_parallel: false,
    };
    run_plan(idx, seed, &plan, |_, _| {})
}

pub fn sc_stateless(idx: u64, seed: u64, _t: bool) -> RunOut {
    let plan = Plan {
        scenario: "stateless",
        opts: CfgOpts::default(),
        profile: Profile {
            tr_steps: (10, 60),
            tr_nonce_explicit: 300,
            tr_reorder: 150,
            tr_dup: 80,
            tr_delay: 80,
            stateless: 900,
            big_payloads: 20,
            tr_mutate: 60,
            wild_buffers: true,
            ..Profile::default()
        },
        mode: "plain",
        warm_parallel: false,
    };
    run_plan(idx, seed, &plan, |_, _| {})
}

pub fn sc_leak(idx: u64, seed: u64, _t: bool) -> RunOut {
    let plan = Plan {
        scenario: "leak",
        opts: CfgOpts { surplus_rs: 100, same_statics: 60, ..CfgOpts::default() },
        profile: Profile {
            hs_fail_read: 600,
            max_hs_faults: 6,
            tr_steps: (10, 40),
            tr_mutate: 450,
            tr_hist: 60,
            tr_nonce_explicit: 60,
            stateless: 500,
            big_payloads: 80,
            wild_buffers: true,
            ..Profile::default()
        },
        mode: "plain",
        warm_parallel: false,
    };
    run_plan(idx, seed, &plan, |_, _| {})
}

pub fn sc_backends_twin(idx: u64, seed: u64, _t: bool) -> RunOut {
    let plan = Plan {
        scenario: "backends-twin",
        opts: CfgOpts { rng_mode: RngMode::PerCall, ..CfgOpts::default() },
        profile: Profile {
            hs_fail_read: 100,
            hs_fail_write: 100,
            max_hs_faults: 3,
            tr_steps: (4, 30),
            tr_mutate: 80,
            tr_rekey_sync: 80,
            tr_nonce_explicit: 80,
            tr_shortout: 40,
            tr_setsend: 40,
            tr_shortbuf: 40,
            tr_oversize: 20,
            stateless: 400,
            big_payloads: 20,
            wild_buffers: true,
            epilogue: true,
            ..Profile::default()
        },
        mode: "twin",
        warm_parallel: false,
    };
    run_plan(idx, seed, &plan, |_, _| {})
}

// ------------------------------------------------------------------- enumerations (C12, C20)

/// C12 boot matrix: 38 patterns x 2 roles x 4 key subsets x psk index 0..=9 / none x denial of
/// each primitive, enumerated completely. Returns one RunOut per boot (no ops).
pub fn boot_matrix_cfgs() -> Vec<RunCfg> {
    let mut out = vec![];
    let mut rng = Rng::new(0xB007_3A7);
    let names = crate::refnoise::pattern_names();
    for base in names {
        for role in [true, false] {
            for subset in 0..4u8 {
                let mut variants: Vec<(String, Option<Prim>, u8)> = vec![(String::new(), None, 0)];
                for n in 0..=9u8 {
                    variants.push((format!("psk{n}"), None, 0));
                }
                // modifier lists with an index that fits no pattern, at every list position
                for m in ["psk9+psk0", "psk0+psk9", "psk5+psk0", "psk0+psk5", "psk0+psk9+psk1", "psk0+psk1+psk5", "psk5+psk0+psk1", "psk4+psk0", "psk0+psk4", "psk3+psk0"] {
                    variants.push((m.into(), None, 0));
                }
                variants.push(("fallback".into(), None, 0));
                variants.push(("psk0+psk1".into(), None, 0));
                variants.push(("psk0+fallback".into(), None, 0));
                variants.push(("fallback+psk0".into(), None, 0));
                variants.push(("psk1+fallback+psk0".into(), None, 0));
                variants.push(("psk1+psk0".into(), None, 0));
                for odd in ["psk10", "psk12", "psk25", "psk100", "psk1x", "psk2fallback", "psk1psk0", "psk", "psk01", "psk+1"] {
                    variants.push((odd.into(), None, 0));
                }
                for d in [Prim::Rng, Prim::Dh, Prim::Hash, Prim::Cipher] {
                    variants.push((String::new(), Some(d), 0));
                }
                // only the k-th request for a primitive is refused (two DH, three cipher objects)
                for (d, k) in [(Prim::Dh, 1u8), (Prim::Dh, 2), (Prim::Cipher, 1), (Prim::Cipher, 2), (Prim::Cipher, 3), (Prim::Hash, 1), (Prim::Rng, 1)] {
                    variants.push((String::new(), Some(d), k));
                }
                for (mods, deny, deny_at) in variants {
                    for (dh, cipher, hash) in [("25519", "ChaChaPoly", "SHA256"), ("P256", "AESGCM", "BLAKE2b")] {
                        if (subset != 3 || deny.is_some()) && dh == "P256" && !mods.is_empty() {
                            continue;
                        }
                        let name = format!("Noise_{base}{mods}_{dh}_{cipher}_{hash}");
                        let dhk = if dh == "P256" { DhK::P256 } else { DhK::X25519 };
                        let (s, _) = gen_static(&mut rng, dhk);
                        let (_, rp) = gen_static(&mut rng, dhk);
                        let psks: Vec<PskCfg> = match Proto::parse(&name) {
                            Ok(p) => p.psk_mods.iter().map(|m| PskCfg { idx: *m, key: rng.bytes(32), at_boot: true }).collect(),
                            Err(_) => vec![],
                        };
                        let node = NodeCfg {
                            name: name.clone(),
                            initiator: role,
                            s_priv: if subset & 1 != 0 { Some(s) } else { None },
                            rs_pub: if subset & 2 != 0 { Some(rp) } else { None },
                            psks,
                            prologue: vec![1, 2, 3],
                            backend: Backend::Default,
                            rng_seed: rng.next_u64(),
                            deny,
                            evil_static_pub: false,
                            build_order: (out.len() % 128) as u8,
                            deny_at,
                        };
                        out.push(RunCfg {
                            scenario: "boot-matrix".into(),
                            nodes: vec![node],
                            rng_mode: RngMode::Stream,
                            record: false,
                            stratum: format!("{base}/{}/{subset}/{mods}/{deny:?}/{dh}", if role { "I" } else { "R" }),
                            mismatch: false,
                        });
                    }
                }
            }
        }
    }
    // unsupported DH name (parsed by snow, implemented by no resolver)
    for role in [true, false] {
        out.push(RunCfg {
            scenario: "boot-matrix".into(),
            nodes: vec![NodeCfg {
                name: "Noise_NN_448_ChaChaPoly_SHA256".into(),
                initiator: role,
                s_priv: None,
                rs_pub: None,
                psks: vec![],
                prologue: vec![],
                backend: Backend::Default,
                rng_seed: 1,
                deny: None,
                evil_static_pub: false,
                build_order: 0,
                deny_at: 0,
            }],
            rng_mode: RngMode::Stream,
            record: false,
            stratum: "448".into(),
            mismatch: false,
        });
    }
    out
}

/// C12 run-time half: sessions whose PSKs are (partly) not supplied at boot; surplus keys.
pub fn sc_boot_runtime(idx: u64, seed: u64, _t: bool) -> RunOut {
    let plan = Plan {
        scenario: "boot-runtime",
        opts: CfgOpts { late_psk: 500, surplus_psk: 300, same_statics: 40, surplus_rs: 60, ..CfgOpts::default() },
        profile: Profile { tr_steps: (0, 6), stateless: 500, ..Profile::default() },
        mode: "plain",
        warm_parallel: false,
    };
    run_plan(idx, seed, &plan, |cfg, rng| {
        // surplus keys now and then (allowed)
        if rng.chance(1, 4) {
            let dh = if cfg.nodes[0].name.contains("P256") { DhK::P256 } else { DhK::X25519 };
            for n in cfg.nodes.iter_mut() {
                if n.s_priv.is_none() && rng.chance(1, 2) {
                    n.s_priv = Some(gen_static(rng, dh).0);
                }
            }
        }
    })
}

// ------------------------------------------------------- systematic (index-decoded) scenarios

fn run_custom(idx: u64, seed: u64, scenario: &str, opts: &CfgOpts, drive: impl FnOnce(&mut Driver)) -> RunOut {
    run_custom_mode(idx, seed, scenario, opts, "plain", drive)
}

fn run_custom_mode(idx: u64, seed: u64, scenario: &str, opts: &CfgOpts, mode: &str, drive: impl FnOnce(&mut Driver)) -> RunOut {
    let mut rng = gen_rng(seed);
    let cfg = gen_cfg(&mut rng, idx, scenario, opts);
    let mut w = World::new(cfg.clone());
    let ops = {
        let mut d = Driver::new(&mut w, &mut rng);
        drive(&mut d);
        d.ops
    };
    finish_run(idx, seed, cfg, ops, w, mode)
}

/// C05: every delivery sequence of length 4 over {m0, m1, m2, garbage, set_receiving_nonce(1)}
/// of three messages of one sender, for 3 ciphers x 2 backends x 2 directions (7500 runs = the
/// complete space; indices beyond wrap around).
pub fn sc_sched_enum(idx: u64, seed: u64, _t: bool) -> RunOut {
    let i = idx % 7500;
    let cipher = ["ChaChaPoly", "AESGCM", "XChaChaPoly"][(i % 3) as usize];
    let backend = [Backend::Default, Backend::RingFirst][((i / 3) % 2) as usize];
    let dir = ((i / 6) % 2) as usize;
    let mut code = i / 12;
    let opts = CfgOpts { force_name: Some(format!("Noise_NN_25519_{cipher}_SHA256")), force_backend: Some(backend), ..CfgOpts::default() };
    run_custom(idx, seed, "sched-enum", &opts, |d| {
        let honest = Profile::default();
        if !d.handshake(0, &honest) {
            return;
        }
        d.step(Op::Convert { node: 0, stateless: false });
        d.step(Op::Convert { node: 1, stateless: false });
        let (snd, rcv) = (dir as u8, 1 - dir as u8);
        let base = d.w.nodes[snd as usize].written.len() as u16;
        for k in 0..3u32 {
            d.step(Op::Write { node: snd, plen: 5 + k, pseed: 77 + k, buf: Buf::Ample, nonce: NonceSel::Auto });
        }
        for _ in 0..4 {
            let sym = code % 5;
            code /= 5;
            let op = match sym {
                0..=2 => Op::Read { node: rcv, src: Src::Hist { from: snd, idx: base + sym as u16 }, mutation: Mutation::None, out: Buf::Ample, nonce: NonceSel::Auto },
                3 => Op::Read { node: rcv, src: Src::Garbage { len: 32, seed: 9 }, mutation: Mutation::None, out: Buf::Ample, nonce: NonceSel::Auto },
                _ => Op::SetRecvNonce { node: rcv, v: 1 },
            };
            d.step(op);
        }
        d.epilogue(0);
    })
}

/// C09 / C15 / C05 at the counter boundary: both counters of one direction are placed at 2^64-3,
/// then every sequence of depth 4 over {write, deliver, synchronised rekey, manual rekey of both
/// sides, receiver resync back to 2^64-3, receiver jump to 2^64-1} is played (6^4 sequences x
/// 3 ciphers x 2 backends x {stateful, stateless receiver} = 15552 runs = the complete space),
/// followed by the fault-free epilogue (resynchronisation + fresh traffic).
pub fn sc_nonce_enum(idx: u64, seed: u64, _t: bool) -> RunOut {
    let space = 1296 * 12;
    let i = idx % space;
    let cipher = ["ChaChaPoly", "AESGCM", "XChaChaPoly"][(i % 3) as usize];
    let backend = [Backend::Default, Backend::RingFirst][((i / 3) % 2) as usize];
    let stateless_rcv = (i / 6) % 2 == 1;
    let mut code = i / 12;
    let opts = CfgOpts { force_name: Some(format!("Noise_NN_25519_{cipher}_SHA256")), force_backend: Some(backend), record: true, ..CfgOpts::default() };
    run_custom(idx, seed, "nonce-enum", &opts, |d| {
        let honest = Profile::default();
        if !d.handshake(0, &honest) {
            return;
        }
        d.step(Op::Convert { node: 0, stateless: false });
        d.step(Op::Convert { node: 1, stateless: stateless_rcv });
        let start = u64::MAX - 2;
        d.step(Op::SetSendNonce { node: 0, v: start });
        d.step(Op::SetRecvNonce { node: 1, v: start });
        for k in 0..4u32 {
            let sym = code % 6;
            code /= 6;
            match sym {
                0 => d.step(Op::Write { node: 0, plen: 9 + k, pseed: 50 + k, buf: Buf::Ample, nonce: NonceSel::Auto }),
                1 => d.step(Op::Read { node: 1, src: Src::Pick { k: 0, consume: true }, mutation: Mutation::None, out: Buf::Ample, nonce: NonceSel::Auto }),
                2 => {
                    d.step(Op::Rekey { node: 0, which: RekeyKind::Outgoing });
                    d.step(Op::Rekey { node: 1, which: RekeyKind::Incoming });
                },
                3 => {
                    d.step(Op::Rekey { node: 0, which: RekeyKind::ManualI(k as u8) });
                    d.step(Op::Rekey { node: 1, which: RekeyKind::ManualI(k as u8) });
                },
                4 => d.step(Op::SetRecvNonce { node: 1, v: start }),
                _ => d.step(Op::SetRecvNonce { node: 1, v: u64::MAX }),
            }
        }
        d.step(Op::Query { node: 0 });
        d.step(Op::Query { node: 1 });
        d.epilogue(0);
    })
}

/// psk variants exercised by the fail/retry grid (the cacophony set plus a few multi-psk ones)
const PSK_VARIANTS: [(&str, &str); 26] = [
    ("N", "psk0"), ("K", "psk0"), ("X", "psk1"), ("NN", "psk0"), ("NN", "psk2"), ("NK", "psk0"), ("NK", "psk2"),
    ("NX", "psk2"), ("XN", "psk3"), ("XK", "psk3"), ("XX", "psk3"), ("KN", "psk0"), ("KN", "psk2"), ("KK", "psk0"),
    ("KK", "psk2"), ("KX", "psk2"), ("IN", "psk1"), ("IN", "psk2"), ("IK", "psk1"), ("IK", "psk2"), ("IX", "psk2"),
    ("XX", "psk2"), ("XX", "psk0+psk1+psk2+psk3"), ("X1X1", "psk4"), ("XN", "psk2+psk1"), ("X1K", "psk2"),
];

/// C07 / C06: the one-failure grid. For every pattern (38 base + 26 psk variants) x DH x message
/// index x failure cause (15: output buffer cut at 0 / before each of the first four field ends /
/// one byte short, oversize payload retried with another payload, a bit flip in each of the first
/// four fields of the incoming message, payload buffer one byte short, message one byte short,
/// out-of-turn calls on both sides) the failing call is made once, then the step is repeated with
/// valid arguments and the session runs to completion plus four transport messages. Recording
/// cipher on, streaming RNG. 64 x 2 x 4 x 15 = 7680 runs = the complete grid.
pub fn sc_fail_retry_enum(idx: u64, seed: u64, _t: bool) -> RunOut {
    let space = 64 * 2 * 4 * 15;
    let i = idx % space;
    let v = (i % 64) as usize;
    let (base, mods) = if v < 38 { (crate::refnoise::pattern_names()[v], "") } else { PSK_VARIANTS[v - 38] };
    let dh = ["25519", "P256"][((i / 64) % 2) as usize];
    let target = ((i / 128) % 4) as usize;
    let cause = (i / 512) % 15;
    let (cipher, hash) = [("ChaChaPoly", "SHA256"), ("AESGCM", "SHA512"), ("XChaChaPoly", "BLAKE2s"), ("AESGCM", "BLAKE2b")][((idx / space + i) % 4) as usize];
    let opts = CfgOpts { force_name: Some(format!("Noise_{base}{mods}_{dh}_{cipher}_{hash}")), record: true, ..CfgOpts::default() };
    run_custom(idx, seed, "fail-retry-enum", &opts, |d| {
        let nmsg = d.w.nodes[0].shadow.as_ref().map_or(0, |s| s.proto.n_messages());
        if nmsg == 0 {
            return;
        }
        let target = target % nmsg;
        for m in 0..nmsg {
            let (wr, rd) = if m % 2 == 0 { (0u8, 1u8) } else { (1, 0) };
            let plen = 5 + 3 * m as u32;
            if m == target {
                match cause {
                    0 => d.step(Op::Write { node: wr, plen, pseed: 60, buf: Buf::Abs(0), nonce: NonceSel::Auto }),
                    1..=4 => d.step(Op::Write { node: wr, plen, pseed: 60, buf: Buf::AtField { field: cause as u8 - 1, delta: if cause % 2 == 0 { -1 } else { 1 } }, nonce: NonceSel::Auto }),
                    5 => d.step(Op::Write { node: wr, plen, pseed: 60, buf: Buf::Delta(-1), nonce: NonceSel::Auto }),
                    6 => {
                        let max = d.w.nodes[wr as usize].shadow.as_ref().map_or(0, |s| 65_535 - s.overhead());
                        d.step(Op::Write { node: wr, plen: max as u32 + 1, pseed: 61, buf: Buf::Abs(70_000), nonce: NonceSel::Auto });
                    },
                    13 => {
                        d.step(Op::Write { node: rd, plen: 4, pseed: 62, buf: Buf::Ample, nonce: NonceSel::Auto });
                        d.step(Op::Read { node: wr, src: Src::Garbage { len: 80, seed: 3 }, mutation: Mutation::None, out: Buf::Ample, nonce: NonceSel::Auto });
                    },
                    _ => {},
                }
            }
            d.step(Op::Write { node: wr, plen, pseed: 60, buf: Buf::Ample, nonce: NonceSel::Auto });
            if m == target {
                match cause {
                    7..=10 => d.step(Op::Read { node: rd, src: Src::Pick { k: 0, consume: false }, mutation: Mutation::Flip { field: cause as u8 - 7, pos: if cause % 2 == 0 { 0 } else { u32::MAX }, bit: 3 }, out: Buf::Ample, nonce: NonceSel::Auto }),
                    11 => d.step(Op::Read { node: rd, src: Src::Pick { k: 0, consume: false }, mutation: Mutation::None, out: Buf::Delta(-1), nonce: NonceSel::Auto }),
                    12 => d.step(Op::Read { node: rd, src: Src::Pick { k: 0, consume: false }, mutation: Mutation::TruncLast { n: 1 }, out: Buf::Ample, nonce: NonceSel::Auto }),
                    14 => d.step(Op::Read { node: rd, src: Src::Pick { k: 0, consume: false }, mutation: Mutation::Flip { field: 200, pos: u32::MAX, bit: 0 }, out: Buf::Exact, nonce: NonceSel::Auto }),
                    _ => {},
                }
            }
            d.step(Op::Read { node: rd, src: Src::Pick { k: 0, consume: false }, mutation: Mutation::None, out: Buf::Ample, nonce: NonceSel::Auto });
            d.step(Op::Query { node: rd });
        }
        d.step(Op::Convert { node: 0, stateless: i % 2 == 0 });
        d.step(Op::Convert { node: 1, stateless: i % 3 == 0 });
        let oneway = nmsg == 1;
        for k in 0..4u8 {
            let (snd, rcv) = if oneway || k % 2 == 0 { (0u8, 1u8) } else { (1, 0) };
            d.step(Op::Write { node: snd, plen: 11 + k as u32, pseed: 70 + k as u32, buf: Buf::Ample, nonce: NonceSel::Auto });
            d.step(Op::Read { node: rcv, src: Src::Next, mutation: Mutation::None, out: Buf::Ample, nonce: NonceSel::Auto });
        }
    })
}

/// C19: the leak grid. cipher (3) x backend (2) x read path (handshake payload, stateful, stateless)
/// x alteration (tag bit, first body byte, last body byte, cut one byte, one appended byte) x payload
/// buffer (exact, +1, +15, +16 = message size, ample) x payload length (16, 48, 129, 1024, 16384,
/// 40000) = 2700 runs = the complete grid; each altered copy is presented, then the genuine message.
pub fn sc_leak_enum(idx: u64, seed: u64, _t: bool) -> RunOut {
    let space = 3 * 2 * 3 * 5 * 5 * 6;
    let i = idx % space;
    let cipher = ["ChaChaPoly", "AESGCM", "XChaChaPoly"][(i % 3) as usize];
    let backend = [Backend::Default, Backend::RingFirst][((i / 3) % 2) as usize];
    let path = (i / 6) % 3;
    let alt = (i / 18) % 5;
    let out = [Buf::Exact, Buf::Delta(1), Buf::Delta(15), Buf::Delta(16), Buf::Ample][((i / 90) % 5) as usize];
    let plen = [16u32, 48, 129, 1024, 16_384, 40_000][((i / 450) % 6) as usize];
    let hash = ["SHA256", "BLAKE2b"][((i / 7) % 2) as usize];
    let opts = CfgOpts { force_name: Some(format!("Noise_XX_25519_{cipher}_{hash}")), force_backend: Some(backend), ..CfgOpts::default() };
    // payload field index: in XX message 2 the fields are e, s, s-tag, payload, payload-tag; in
    // transport messages payload, tag
    let mutation = |payload_field: u8| match alt {
        0 => Mutation::Flip { field: payload_field + 1, pos: 5, bit: 2 },
        1 => Mutation::Flip { field: payload_field, pos: 0, bit: 0 },
        2 => Mutation::Flip { field: payload_field, pos: u32::MAX, bit: 7 },
        3 => Mutation::TruncLast { n: 1 },
        _ => Mutation::Extend { by: 1, fill: 0x5A },
    };
    run_custom(idx, seed, "leak-enum", &opts, |d| {
        // message 1
        d.step(Op::Write { node: 0, plen: 3, pseed: 80, buf: Buf::Ample, nonce: NonceSel::Auto });
        d.step(Op::Read { node: 1, src: Src::Next, mutation: Mutation::None, out: Buf::Ample, nonce: NonceSel::Auto });
        // message 2 carries an encrypted static key and an encrypted payload
        let p2 = if path == 0 { plen } else { 7 };
        d.step(Op::Write { node: 1, plen: p2, pseed: 81, buf: Buf::Ample, nonce: NonceSel::Auto });
        if path == 0 {
            d.step(Op::Read { node: 0, src: Src::Pick { k: 0, consume: false }, mutation: mutation(3), out, nonce: NonceSel::Auto });
        }
        d.step(Op::Read { node: 0, src: Src::Next, mutation: Mutation::None, out: Buf::Ample, nonce: NonceSel::Auto });
        d.step(Op::Write { node: 0, plen: 5, pseed: 82, buf: Buf::Ample, nonce: NonceSel::Auto });
        d.step(Op::Read { node: 1, src: Src::Next, mutation: Mutation::None, out: Buf::Ample, nonce: NonceSel::Auto });
        if path == 0 {
            return;
        }
        d.step(Op::Convert { node: 0, stateless: false });
        d.step(Op::Convert { node: 1, stateless: path == 2 });
        d.step(Op::Write { node: 0, plen, pseed: 83, buf: Buf::Ample, nonce: NonceSel::Auto });
        d.step(Op::Read { node: 1, src: Src::Pick { k: 0, consume: false }, mutation: mutation(0), out, nonce: NonceSel::Auto });
        d.step(Op::Read { node: 1, src: Src::Next, mutation: Mutation::None, out, nonce: NonceSel::Auto });
    })
}

fn rekey_enum_drive(d: &mut Driver, mut code: u64, stateless_rcv: bool) {
    let honest = Profile::default();
    if !d.handshake(0, &honest) {
        return;
    }
    d.step(Op::Convert { node: 0, stateless: false });
    d.step(Op::Convert { node: 1, stateless: stateless_rcv });
    for k in 0..4u32 {
        let sym = code % 6;
        code /= 6;
        match sym {
            0 => d.step(Op::Write { node: 0, plen: 9 + k, pseed: 90 + k, buf: Buf::Ample, nonce: NonceSel::Auto }),
            1 => d.step(Op::Read { node: 1, src: Src::Pick { k: 0, consume: true }, mutation: Mutation::None, out: Buf::Ample, nonce: NonceSel::Auto }),
            2 => d.step(Op::Rekey { node: 0, which: RekeyKind::Outgoing }),
            3 => d.step(Op::Rekey { node: 1, which: RekeyKind::Incoming }),
            4 => d.step(Op::Rekey { node: 0, which: RekeyKind::ManualI(2) }),
            _ => d.step(Op::Rekey { node: 1, which: RekeyKind::ManualI(2) }),
        }
    }
    // whatever the sequence did, traffic continues: the model decides what must be accepted
    for k in 0..2u32 {
        d.step(Op::Write { node: 0, plen: 20 + k, pseed: 95 + k, buf: Buf::Ample, nonce: NonceSel::Auto });
    }
    for _ in 0..6 {
        if d.w.inbox[1].is_empty() {
            break;
        }
        d.step(Op::Read { node: 1, src: Src::Next, mutation: Mutation::None, out: Buf::Ample, nonce: NonceSel::Auto });
    }
    // the opposite direction must be unaffected
    if !stateless_rcv {
        d.step(Op::Write { node: 1, plen: 8, pseed: 99, buf: Buf::Ample, nonce: NonceSel::Auto });
        d.step(Op::Read { node: 0, src: Src::Next, mutation: Mutation::None, out: Buf::Ample, nonce: NonceSel::Auto });
    }
}

/// C15: every sequence of depth 4 over {write, deliver, sender rekeys outgoing, receiver rekeys
/// incoming, sender installs manual key, receiver installs the same manual key}, then further
/// traffic; 6^4 x 3 ciphers x 2 backends x {stateful, stateless receiver} = 15552 runs.
pub fn sc_rekey_enum(idx: u64, seed: u64, _t: bool) -> RunOut {
    let i = idx % 15_552;
    let cipher = ["ChaChaPoly", "AESGCM", "XChaChaPoly"][(i % 3) as usize];
    let backend = [Backend::Default, Backend::RingFirst][((i / 3) % 2) as usize];
    let stateless_rcv = (i / 6) % 2 == 1;
    let opts = CfgOpts { force_name: Some(format!("Noise_NN_25519_{cipher}_SHA512")), force_backend: Some(backend), ..CfgOpts::default() };
    run_custom(idx, seed, "rekey-enum", &opts, |d| rekey_enum_drive(d, i / 12, stateless_rcv))
}

/// C20: the same rekey sequences in twin universes (5 backend assignments per run).
pub fn sc_rekey_enum_twin(idx: u64, seed: u64, _t: bool) -> RunOut {
    let i = idx % 5_184;
    let cipher = ["ChaChaPoly", "AESGCM"][(i % 2) as usize];
    let stateless_rcv = (i / 2) % 2 == 1;
    let opts = CfgOpts { force_name: Some(format!("Noise_NN_25519_{cipher}_SHA256")), rng_mode: RngMode::PerCall, ..CfgOpts::default() };
    run_custom_mode(idx, seed, "rekey-enum-twin", &opts, "twin", |d| rekey_enum_drive(d, i / 4, stateless_rcv))
}

/// C10 / C14: the boundary sweep. For every pattern (38 + 26 psk variants) x DH x message index:
/// the message is first written into output buffers of every length {boundary-2 .. boundary+2}
/// around each field boundary of the model's field map (and 0, 1), then delivered cut at every
/// such length and into payload buffers around the payload length, then delivered genuinely;
/// afterwards the same sweep around the 16-byte tag in both transport modes. 512 runs, about 60
/// faulted calls each = the complete set of boundary windows.
pub fn sc_boundary_sweep(idx: u64, seed: u64, _t: bool) -> RunOut {
    let space = 64 * 2 * 4;
    let i = idx % space;
    let v = (i % 64) as usize;
    let (base, mods) = if v < 38 { (crate::refnoise::pattern_names()[v], "") } else { PSK_VARIANTS[v - 38] };
    let dh = ["25519", "P256"][((i / 64) % 2) as usize];
    let target = ((i / 128) % 4) as usize;
    let (cipher, hash) = [("ChaChaPoly", "SHA256"), ("AESGCM", "BLAKE2b"), ("XChaChaPoly", "SHA512")][((idx / space + i) % 3) as usize];
    let opts = CfgOpts { force_name: Some(format!("Noise_{base}{mods}_{dh}_{cipher}_{hash}")), ..CfgOpts::default() };
    run_custom(idx, seed, "boundary-sweep", &opts, |d| {
        let nmsg = d.w.nodes[0].shadow.as_ref().map_or(0, |s| s.proto.n_messages());
        if nmsg == 0 {
            return;
        }
        let target = target % nmsg;
        let plen = 21u32;
        for m in 0..nmsg {
            let (wr, rd) = if m % 2 == 0 { (0u8, 1u8) } else { (1, 0) };
            if m == target {
                let nfields = d.w.nodes[wr as usize].shadow.as_ref().map_or(0, |s| s.field_map(plen as usize).len()) as u8;
                d.step(Op::Write { node: wr, plen, pseed: 40, buf: Buf::Abs(0), nonce: NonceSel::Auto });
                d.step(Op::Write { node: wr, plen, pseed: 40, buf: Buf::Abs(1), nonce: NonceSel::Auto });
                'outer: for f in 0..nfields {
                    for delta in -2i8..=2 {
                        d.step(Op::Write { node: wr, plen, pseed: 40, buf: Buf::AtField { field: f, delta }, nonce: NonceSel::Auto });
                        if !d.w.inbox[rd as usize].is_empty() {
                            break 'outer;
                        }
                    }
                }
                for delta in [-2i32, -1, 1, 15] {
                    if !d.w.inbox[rd as usize].is_empty() {
                        break;
                    }
                    d.step(Op::Write { node: wr, plen, pseed: 40, buf: Buf::Delta(delta), nonce: NonceSel::Auto });
                }
            }
            if d.w.inbox[rd as usize].is_empty() {
                d.step(Op::Write { node: wr, plen, pseed: 40, buf: Buf::Ample, nonce: NonceSel::Auto });
            }
            if m == target {
                let nfields = d.w.history.last().map_or(0, |h| h.fields.len()) as u8;
                for f in 0..nfields {
                    for delta in -2i8..=2 {
                        d.step(Op::Read { node: rd, src: Src::Pick { k: 0, consume: false }, mutation: Mutation::TruncField { field: f, delta }, out: Buf::Ample, nonce: NonceSel::Auto });
                        if d.w.inbox[rd as usize].is_empty() {
                            break;
                        }
                    }
                }
                for n in [1u8, 2, 15, 16, 17] {
                    if d.w.inbox[rd as usize].is_empty() {
                        break;
                    }
                    d.step(Op::Read { node: rd, src: Src::Pick { k: 0, consume: false }, mutation: Mutation::TruncLast { n }, out: Buf::Ample, nonce: NonceSel::Auto });
                }
                for out in [Buf::Abs(0), Buf::Delta(-2), Buf::Delta(-1)] {
                    if d.w.inbox[rd as usize].is_empty() {
                        break;
                    }
                    d.step(Op::Read { node: rd, src: Src::Pick { k: 0, consume: false }, mutation: Mutation::None, out, nonce: NonceSel::Auto });
                }
            }
            if !d.w.inbox[rd as usize].is_empty() {
                d.step(Op::Read { node: rd, src: Src::Pick { k: 0, consume: false }, mutation: Mutation::None, out: Buf::Exact, nonce: NonceSel::Auto });
            }
        }
        d.step(Op::Convert { node: 0, stateless: i % 2 == 0 });
        d.step(Op::Convert { node: 1, stateless: i % 4 < 2 });
        for blen in [0u32, 1, 15, 16, 17, 35, 36, 37, 38] {
            d.step(Op::Write { node: 0, plen, pseed: 41, buf: Buf::Abs(blen), nonce: NonceSel::Auto });
            if !d.w.inbox[1].is_empty() {
                break;
            }
        }
        if d.w.inbox[1].is_empty() {
            d.step(Op::Write { node: 0, plen, pseed: 41, buf: Buf::Ample, nonce: NonceSel::Auto });
        }
        for n in [1u8, 2, 15, 16, 17, 20, 21, 22, 36, 37] {
            if d.w.inbox[1].is_empty() {
                break;
            }
            d.step(Op::Read { node: 1, src: Src::Pick { k: 0, consume: false }, mutation: Mutation::TruncLast { n }, out: Buf::Ample, nonce: NonceSel::Auto });
        }
        for out in [Buf::Abs(0), Buf::Delta(-2), Buf::Delta(-1), Buf::Exact] {
            if d.w.inbox[1].is_empty() {
                break;
            }
            d.step(Op::Read { node: 1, src: Src::Pick { k: 0, consume: false }, mutation: Mutation::None, out, nonce: NonceSel::Auto });
        }
    })
}

/// C04: the authentication grid. A stateless writer (session 0 initiator) produces a message at
/// nonce w; the receiver (stateful, positioned with set_receiving_nonce, or stateless) is offered,
/// under nonce r: the message under 7 wrong nonces (r != w, among them pairs congruent modulo 2^32
/// and 2^63), 7 alterations at r = w, its own message (reflection) and the same-nonce message of a
/// parallel session with the same static keys - then the genuine message at r = w, twice (the
/// second copy must be rejected by a stateful receiver and accepted by a stateless one).
/// 3 ciphers x 2 backends x 2 receiver modes x 16 attacks x 4 payload lengths = 768 runs.
pub fn sc_auth_enum(idx: u64, seed: u64, _t: bool) -> RunOut {
    let space = 3 * 2 * 2 * 16 * 4;
    let i = idx % space;
    let cipher = ["ChaChaPoly", "AESGCM", "XChaChaPoly"][(i % 3) as usize];
    let backend = [Backend::Default, Backend::RingFirst][((i / 3) % 2) as usize];
    let stateless_rcv = (i / 6) % 2 == 1;
    let attack = (i / 12) % 16;
    let plen = [0u32, 1, 16, 100][((i / 192) % 4) as usize];
    let opts = CfgOpts { force_name: Some(format!("Noise_KK_25519_{cipher}_SHA256")), force_backend: Some(backend), sessions: 2, parallel_same_statics: true, ..CfgOpts::default() };
    run_custom(idx, seed, "auth-enum", &opts, |d| {
        let honest = Profile::default();
        if !d.handshake(1, &honest) || !d.handshake(0, &honest) {
            return;
        }
        d.step(Op::Convert { node: 0, stateless: true });
        d.step(Op::Convert { node: 1, stateless: stateless_rcv });
        d.step(Op::Convert { node: 2, stateless: true });
        d.step(Op::Convert { node: 3, stateless: true });
        let pairs: [(u64, u64); 7] = [
            (0, 1),
            (0, 1 << 32),
            (7, 7 + (1 << 32)),
            (1 << 63, (1 << 63) + 1),
            (5, 5 + (1 << 63)),
            (u64::MAX - 1, (1 << 32) - 2),
            (0x0102_0304_0506_0708, 0x0807_0605_0403_0201),
        ];
        let (w, r) = if attack < 7 { pairs[attack as usize] } else { (3 + ((i as u64) << 33), 3 + ((i as u64) << 33)) };
        let base0 = d.w.nodes[0].written.len() as u16;
        d.step(Op::Write { node: 0, plen, pseed: 20, buf: Buf::Ample, nonce: NonceSel::At(w) });
        let position = |d: &mut Driver, v: u64| {
            if !stateless_rcv {
                d.step(Op::SetRecvNonce { node: 1, v });
            }
        };
        position(d, r);
        let genuine = Src::Hist { from: 0, idx: base0 };
        match attack {
            0..=6 => d.step(Op::Read { node: 1, src: genuine, mutation: Mutation::None, out: Buf::Ample, nonce: NonceSel::At(r) }),
            7 => d.step(Op::Read { node: 1, src: genuine, mutation: Mutation::Flip { field: 1, pos: 0, bit: 0 }, out: Buf::Ample, nonce: NonceSel::At(r) }),
            8 => d.step(Op::Read { node: 1, src: genuine, mutation: Mutation::Flip { field: 0, pos: 0, bit: 7 }, out: Buf::Ample, nonce: NonceSel::At(r) }),
            9 => d.step(Op::Read { node: 1, src: genuine, mutation: Mutation::TruncLast { n: 1 }, out: Buf::Ample, nonce: NonceSel::At(r) }),
            10 => d.step(Op::Read { node: 1, src: genuine, mutation: Mutation::TruncAbs { to: 15 }, out: Buf::Ample, nonce: NonceSel::At(r) }),
            11 => d.step(Op::Read { node: 1, src: genuine, mutation: Mutation::TruncAbs { to: 0 }, out: Buf::Ample, nonce: NonceSel::At(r) }),
            12 => d.step(Op::Read { node: 1, src: genuine, mutation: Mutation::Extend { by: 1, fill: 0 }, out: Buf::Ample, nonce: NonceSel::At(r) }),
            13 => d.step(Op::Read { node: 1, src: genuine, mutation: Mutation::Extend { by: 16, fill: 0xAA }, out: Buf::Ample, nonce: NonceSel::At(r) }),
            14 => {
                // reflection: the receiver is offered a message it wrote itself at that nonce
                let b1 = d.w.nodes[1].written.len() as u16;
                if stateless_rcv {
                    d.step(Op::Write { node: 1, plen, pseed: 21, buf: Buf::Ample, nonce: NonceSel::At(r) });
                } else {
                    d.step(Op::SetSendNonce { node: 1, v: r });
                    d.step(Op::Write { node: 1, plen, pseed: 21, buf: Buf::Ample, nonce: NonceSel::Auto });
                }
                d.step(Op::Read { node: 1, src: Src::Hist { from: 1, idx: b1 }, mutation: Mutation::None, out: Buf::Ample, nonce: NonceSel::At(r) });
            },
            _ => {
                // the parallel session's initiator writes at the same nonce
                let b2 = d.w.nodes[2].written.len() as u16;
                d.step(Op::Write { node: 2, plen, pseed: 20, buf: Buf::Ample, nonce: NonceSel::At(w) });
                d.step(Op::Read { node: 1, src: Src::Hist { from: 2, idx: b2 }, mutation: Mutation::None, out: Buf::Ample, nonce: NonceSel::At(r) });
            },
        }
        // the genuine message under its own nonce: accepted; presented again: stateful rejects
        position(d, w);
        d.step(Op::Read { node: 1, src: genuine, mutation: Mutation::None, out: Buf::Ample, nonce: NonceSel::At(w) });
        d.step(Op::Read { node: 1, src: genuine, mutation: Mutation::None, out: Buf::Exact, nonce: NonceSel::At(w) });
    })
}

/// C16: three messages written by a stateless sender at three nonces are read by a stateless
/// receiver in every order, each twice, from tight and roomy buffers; nonce triples from the
/// boundary set; then a stateful receiver positioned at each nonce reads the same bytes.
/// 3 ciphers x 2 backends x 6 orders x 5 triples x 2 payload sets = 360 runs.
pub fn sc_stateless_enum(idx: u64, seed: u64, _t: bool) -> RunOut {
    let space = 3 * 2 * 6 * 5 * 2;
    let i = idx % space;
    let cipher = ["ChaChaPoly", "AESGCM", "XChaChaPoly"][(i % 3) as usize];
    let backend = [Backend::Default, Backend::RingFirst][((i / 3) % 2) as usize];
    let perm = [[0usize, 1, 2], [0, 2, 1], [1, 0, 2], [1, 2, 0], [2, 0, 1], [2, 1, 0]][((i / 6) % 6) as usize];
    let triples: [[u64; 3]; 5] = [
        [0, 1, 2],
        [0xFFFF_FFFF, 1 << 32, (1 << 32) + 1],
        [1 << 63, (1 << 63) - 1, u64::MAX - 1],
        [0, 1 << 32, 1 << 63],
        [0x00FF_00FF_00FF_00FF, 0xFF00_FF00_FF00_FF00, 0x0123_4567_89AB_CDEF],
    ];
    let ns = triples[((i / 36) % 5) as usize];
    let plens = [[0u32, 17, 300], [64, 1, 4096]][((i / 180) % 2) as usize];
    let opts = CfgOpts { force_name: Some(format!("Noise_XX_25519_{cipher}_BLAKE2s")), force_backend: Some(backend), ..CfgOpts::default() };
    run_custom(idx, seed, "stateless-enum", &opts, |d| {
        let honest = Profile::default();
        if !d.handshake(0, &honest) {
            return;
        }
        d.step(Op::Convert { node: 0, stateless: true });
        d.step(Op::Convert { node: 1, stateless: true });
        let base = d.w.nodes[0].written.len() as u16;
        for k in 0..3 {
            d.step(Op::Write { node: 0, plen: plens[k], pseed: 30 + k as u32, buf: Buf::Ample, nonce: NonceSel::At(ns[k]) });
        }
        for round in 0..2 {
            for &k in perm.iter() {
                let out = if round == 0 { Buf::Exact } else { Buf::Ample };
                d.step(Op::Read { node: 1, src: Src::Hist { from: 0, idx: base + k as u16 }, mutation: Mutation::None, out, nonce: NonceSel::At(ns[k]) });
            }
        }
        // the writer's own results do not depend on order either: write them again, reversed
        for k in (0..3).rev() {
            d.step(Op::Write { node: 0, plen: plens[k], pseed: 30 + k as u32, buf: Buf::Exact, nonce: NonceSel::At(ns[k]) });
        }
    })
}

/// Long histories (C05, C09, C02): one session per cipher x backend x receiver mode in which the
/// receiver first rejects more than 2^20 distinct garbage deliveries, must then still accept the
/// genuine next message, and the peers then exchange more than 2^18 (thorough: 2^20) messages per
/// direction in order under one key (the counter crosses 255/256, 65535/65536, 2^18 by counting,
/// not by placement; behaviour that depends on how often a key was used shows up here, up to that
/// bound), then rekey more than 2^16 times in step and exchange messages again. 18 runs: 3 ciphers
/// x 2 backends x {both stateful, stateless receiver, stateless sender}.
pub fn sc_soak(idx: u64, seed: u64, thorough: bool) -> RunOut {
    let i = idx % 18;
    let cipher = ["ChaChaPoly", "AESGCM", "XChaChaPoly"][(i % 3) as usize];
    let backend = [Backend::Default, Backend::RingFirst][((i / 3) % 2) as usize];
    // 0: both ends stateful; 1: stateless receiver; 2: stateless sender
    let mode = (i / 6) % 3;
    let (stateless_snd, stateless_rcv) = (mode == 2, mode == 1);
    let opts = CfgOpts { force_name: Some(format!("Noise_XX_25519_{cipher}_BLAKE2s")), force_backend: Some(backend), ..CfgOpts::default() };
    run_custom(idx, seed, "soak", &opts, |d| {
        // handshake: before each genuine delivery the reader rejects a few hundred forged
        // messages (garbage and altered copies of the genuine one), and the writer makes a few
        // hundred failing attempts
        for m in 0..3u32 {
            let (wr, rd) = if m % 2 == 0 { (0u8, 1u8) } else { (1, 0) };
            for k in 0..(if thorough { 600 } else { 120 }) {
                d.step(Op::Write { node: wr, plen: 9, pseed: 5, buf: Buf::Abs(k % 7), nonce: NonceSel::Auto });
            }
            d.step(Op::Write { node: wr, plen: 9, pseed: 5, buf: Buf::Ample, nonce: NonceSel::Auto });
            // (XX message 1 is `e` plus a cleartext payload: any 32+ bytes are a valid message, so
            // forged input starts at message 2)
            if m > 0 {
                d.step(Op::GarbageBurst { node: rd, count: if thorough { 3000 } else { 300 }, len: 120, seed: 11 + m });
            }
            for k in 0..(if m == 0 { 0 } else if thorough { 600u32 } else { 120 }) {
                d.step(Op::Read { node: rd, src: Src::Pick { k: 0, consume: false }, mutation: Mutation::Flip { field: (k % 5) as u8, pos: k, bit: (k % 8) as u8 }, out: Buf::Ample, nonce: NonceSel::Auto });
            }
            d.step(Op::Read { node: rd, src: Src::Next, mutation: Mutation::None, out: Buf::Ample, nonce: NonceSel::Auto });
        }
        d.step(Op::Convert { node: 0, stateless: stateless_snd });
        d.step(Op::Convert { node: 1, stateless: stateless_rcv });
        d.step(Op::TrafficBurst { node: 0, count: 3, plen: 10 });
        d.step(Op::GarbageBurst { node: 1, count: (1 << 20) + 64, len: 33, seed: 7 });
        // more than 2^18 (thorough: 2^20) accepted messages under one key, in both directions
        let n = if thorough { (1 << 20) + 3_000 } else { (1 << 18) + 3_000 };
        d.step(Op::TrafficBurst { node: 0, count: n, plen: 4 });
        if !stateless_rcv {
            d.step(Op::TrafficBurst { node: 1, count: n, plen: 0 });
        }
        // more than 2^16 rekeys in step, then traffic again
        d.step(Op::RekeyBurst { node: 0, count: if thorough { 300_000 } else { 70_000 } });
        d.step(Op::TrafficBurst { node: 0, count: 3, plen: 7 });
        if !stateless_rcv {
            d.step(Op::RekeyBurst { node: 1, count: 300 });
            d.step(Op::TrafficBurst { node: 1, count: 3, plen: 7 });
        }
        d.step(Op::Query { node: 0 });
        d.step(Op::Query { node: 1 });
    })
}

const SOAK_HS_NAMES: [&str; 10] = [
    "Noise_XX_25519_ChaChaPoly_BLAKE2s",
    "Noise_IK_25519_AESGCM_SHA256",
    "Noise_IKpsk2_25519_ChaChaPoly_BLAKE2s",
    "Noise_XXpsk3_P256_ChaChaPoly_SHA256",
    "Noise_KK_25519_XChaChaPoly_SHA512",
    "Noise_NNpsk0_25519_AESGCM_BLAKE2b",
    "Noise_X_25519_ChaChaPoly_SHA256",
    "Noise_XK1_P256_AESGCM_SHA512",
    "Noise_NX_25519_ChaChaPoly_BLAKE2s",
    "Noise_K1X1_25519_ChaChaPoly_SHA256",
];

/// Long handshake histories (C07, C02, C05): for ten patterns x two backends, each handshake
/// message is preceded by many failing write attempts (undersized buffer) and - where the message
/// has an authenticated part - by several hundred rejected deliveries (garbage, bit flips of the
/// genuine message, truncations, undersized payload buffers); the genuine message must then still
/// be accepted, the session must complete, and a transport exchange per direction follows.
/// 20 runs: the complete set.
pub fn sc_soak_hs(idx: u64, seed: u64, thorough: bool) -> RunOut {
    let i = idx % 20;
    let name = SOAK_HS_NAMES[(i % 10) as usize];
    let backend = [Backend::Default, Backend::RingFirst][((i / 10) % 2) as usize];
    let opts = CfgOpts { force_name: Some(name.to_string()), force_backend: Some(backend), ..CfgOpts::default() };
    let proto = Proto::parse(name).unwrap();
    let nmsg = proto.msgs.len() as u32;
    let oneway = proto.base.len() == 1;
    let reps: u32 = if thorough { 700 } else { 90 };
    run_custom(idx, seed, "soak-hs", &opts, |d| {
        for m in 0..nmsg {
            let (wr, rd) = if m % 2 == 0 { (0u8, 1u8) } else { (1, 0) };
            for k in 0..reps {
                d.step(Op::Write { node: wr, plen: 9, pseed: 5 + m, buf: Buf::Abs(k % 7), nonce: NonceSel::Auto });
            }
            d.step(Op::Write { node: wr, plen: 9, pseed: 5 + m, buf: Buf::Ample, nonce: NonceSel::Auto });
            let authenticated = d.w.inbox[rd as usize].back().map(|&h| d.w.history[h].fields.iter().any(|f| matches!(f.kind, crate::refnoise::FieldKind::PayloadTag | crate::refnoise::FieldKind::STag))).unwrap_or(false);
            if authenticated {
                let len = d.w.inbox[rd as usize].back().map(|&h| d.w.history[h].bytes.len()).unwrap_or(64) as u32;
                d.step(Op::GarbageBurst { node: rd, count: reps, len: len as u16, seed: 11 + m });
                for k in 0..reps {
                    let mutation = match k % 3 {
                        0 => Mutation::Flip { field: (k % 5) as u8, pos: k, bit: (k % 8) as u8 },
                        1 => Mutation::TruncLast { n: 1 + (k % 16) as u8 },
                        _ => Mutation::None,
                    };
                    // every third: the genuine bytes into a payload buffer that is too small
                    let out = if k % 3 == 2 { Buf::Abs(k % 9) } else { Buf::Ample };
                    d.step(Op::Read { node: rd, src: Src::Pick { k: 0, consume: false }, mutation, out, nonce: NonceSel::Auto });
                }
            }
            d.step(Op::Read { node: rd, src: Src::Next, mutation: Mutation::None, out: Buf::Ample, nonce: NonceSel::Auto });
        }
        d.step(Op::Convert { node: 0, stateless: false });
        d.step(Op::Convert { node: 1, stateless: i % 4 == 3 });
        d.step(Op::TrafficBurst { node: 0, count: 3, plen: 10 });
        if !oneway && i % 4 != 3 {
            d.step(Op::TrafficBurst { node: 1, count: 3, plen: 10 });
        }
        d.step(Op::Query { node: 0 });
        d.step(Op::Query { node: 1 });
    })
}

const CALL_ENUM_NAMES: [&str; 6] = [
    "Noise_N_25519_ChaChaPoly_SHA256",
    "Noise_NN_25519_AESGCM_SHA256",
    "Noise_XX_25519_ChaChaPoly_BLAKE2s",
    "Noise_NNpsk0_25519_ChaChaPoly_SHA256",
    "Noise_X1X1_25519_ChaChaPoly_SHA512",
    "Noise_K_25519_AESGCM_SHA256",
];

/// C11: every sequence of `depth` calls over {write by I, write by R, read-next by I, read-next by
/// R, read-garbage by I, read-garbage by R}, for six patterns (1-4 messages, one-way/interactive,
/// psk), followed by conversion of both sides (stateful/stateless alternating) and one transport
/// call in each direction. depth 4 (quick) / 6 (thorough): 6^depth x 6 runs = the complete space.
pub fn sc_call_enum(idx: u64, seed: u64, thorough: bool) -> RunOut {
    let depth = if thorough { 6 } else { 4 };
    let space = 6u64.pow(depth) * 6;
    let i = idx % space;
    let name = CALL_ENUM_NAMES[(i % 6) as usize];
    let mut code = i / 6;
    let opts = CfgOpts { force_name: Some(name.to_string()), ..CfgOpts::default() };
    run_custom(idx, seed, "call-enum", &opts, |d| {
        for k in 0..depth {
            let sym = code % 6;
            code /= 6;
            let node = (sym % 2) as u8;
            let op = match sym / 2 {
                0 => Op::Write { node, plen: 3 + k, pseed: 100 + k, buf: Buf::Ample, nonce: NonceSel::Auto },
                1 => {
                    if d.w.inbox[node as usize].is_empty() {
                        // nothing in flight: present the peer's latest message again (or nothing)
                        Op::Read { node, src: Src::Hist { from: 1 - node, idx: d.w.nodes[(1 - node) as usize].written.len().saturating_sub(1) as u16 }, mutation: Mutation::None, out: Buf::Ample, nonce: NonceSel::Auto }
                    } else {
                        Op::Read { node, src: Src::Next, mutation: Mutation::None, out: Buf::Ample, nonce: NonceSel::Auto }
                    }
                },
                _ => Op::Read { node, src: Src::Garbage { len: 48, seed: k }, mutation: Mutation::None, out: Buf::Ample, nonce: NonceSel::Auto },
            };
            d.step(op);
        }
        let sl = i % 2 == 0;
        d.step(Op::Convert { node: 0, stateless: sl });
        d.step(Op::Convert { node: 1, stateless: !sl });
        for node in [0u8, 1] {
            d.step(Op::Write { node, plen: 4, pseed: 5, buf: Buf::Ample, nonce: NonceSel::Auto });
            d.step(Op::Read { node: 1 - node, src: Src::Next, mutation: Mutation::None, out: Buf::Ample, nonce: NonceSel::Auto });
        }
    })
}

/// C14: for every pattern x DH x message index x payload in {max-1, max, max+1, max+16, max+17} x
/// buffer in {needed-1, needed, needed+15, needed+16, 65535, 65551, 70000}: the boundary write,
/// then (if it had to fail) the same message with a small payload, then its delivery.
pub fn sc_framing_boundary(idx: u64, seed: u64, _t: bool) -> RunOut {
    let space = 38 * 2 * 4 * 5 * 7;
    let i = idx % space;
    let pat = crate::refnoise::pattern_names()[(i % 38) as usize];
    let dh = ["25519", "P256"][((i / 38) % 2) as usize];
    let target = ((i / 76) % 4) as usize;
    let pl_choice = (i / 304) % 5;
    let buf_choice = (i / 1520) % 7;
    let (cipher, hash) = [("ChaChaPoly", "SHA256"), ("AESGCM", "SHA512"), ("XChaChaPoly", "BLAKE2s"), ("ChaChaPoly", "BLAKE2b")][(idx / space % 4) as usize];
    let mods = if (i / 76) % 3 == 2 { "psk0" } else { "" };
    let opts = CfgOpts { force_name: Some(format!("Noise_{pat}{mods}_{dh}_{cipher}_{hash}")), ..CfgOpts::default() };
    run_custom(idx, seed, "framing-boundary", &opts, |d| {
        let nmsg = d.w.nodes[0].shadow.as_ref().map_or(0, |s| s.proto.n_messages());
        if nmsg == 0 {
            return;
        }
        let target = target % nmsg;
        for m in 0..nmsg {
            let (wr, rd) = if m % 2 == 0 { (0u8, 1u8) } else { (1, 0) };
            if m == target {
                let overhead = d.w.nodes[wr as usize].shadow.as_ref().map_or(0, |s| s.overhead());
                let max = 65_535 - overhead as i64;
                let plen = (max + [-1i64, 0, 1, 16, 17][pl_choice as usize]).max(0) as u32;
                let buf = [Buf::Delta(-1), Buf::Exact, Buf::Delta(15), Buf::Delta(16), Buf::Abs(65_535), Buf::Abs(65_551), Buf::Abs(70_000)][buf_choice as usize];
                d.step(Op::Write { node: wr, plen, pseed: 31, buf, nonce: NonceSel::Auto });
            }
            if d.w.inbox[rd as usize].is_empty() {
                d.step(Op::Write { node: wr, plen: 7, pseed: 32, buf: Buf::Ample, nonce: NonceSel::Auto });
            }
            let out = if m == target { Buf::Exact } else { Buf::Ample };
            d.step(Op::Read { node: rd, src: Src::Next, mutation: Mutation::None, out, nonce: NonceSel::Auto });
        }
        // the same boundary in transport mode, both state types
        d.step(Op::Convert { node: 0, stateless: i % 2 == 0 });
        d.step(Op::Convert { node: 1, stateless: i % 4 < 2 });
        let plen = (65_535 - 16 + [-1i64, 0, 1, 16, 17][pl_choice as usize]) as u32;
        let buf = [Buf::Delta(-1), Buf::Exact, Buf::Delta(15), Buf::Delta(16), Buf::Abs(65_535), Buf::Abs(65_551), Buf::Abs(70_000)][buf_choice as usize];
        d.step(Op::Write { node: 0, plen, pseed: 33, buf, nonce: NonceSel::Auto });
        if !d.w.inbox[1].is_empty() {
            // altered copies of the (near-)maximum-size message first: extended past 65535 or
            // within it, cut by one byte; with payload buffers around the plaintext length
            let outs = [Buf::Exact, Buf::Delta(1), Buf::Delta(15), Buf::Delta(16), Buf::Ample];
            for (k, m) in [Mutation::Extend { by: 1, fill: 0 }, Mutation::Extend { by: 16, fill: 7 }, Mutation::Extend { by: 17, fill: 0 }, Mutation::TruncField { field: 1, delta: 15 }].into_iter().enumerate() {
                let out = outs[((i as usize) / 7 + k) % outs.len()];
                d.step(Op::Read { node: 1, src: Src::Pick { k: 0, consume: false }, mutation: m, out, nonce: NonceSel::Auto });
            }
            d.step(Op::Read { node: 1, src: Src::Next, mutation: Mutation::None, out: Buf::Exact, nonce: NonceSel::Auto });
        }
        // a non-conforming peer that holds the keys: authentic messages at and beyond the limit
        for extra in [0u32, 1, 16, 17] {
            let plen = 65_535 - 16 + extra;
            d.step(Op::Read { node: 1, src: Src::Forged { plen, pseed: 34 + extra }, mutation: Mutation::None, out: Buf::Ample, nonce: NonceSel::At(0) });
        }
    })
}

/// Size of the finite space an index-decoded scenario enumerates (None for seeded scenarios).
pub fn grid_space(name: &str, thorough: bool) -> Option<u64> {
    Some(match name {
        "sched-enum" => 7_500,
        "call-enum" => 6u64.pow(if thorough { 6 } else { 4 }) * 6,
        "framing-boundary" => 38 * 2 * 4 * 5 * 7,
        "nonce-enum" => 15_552,
        "fail-retry-enum" => 64 * 2 * 4 * 15,
        "leak-enum" => 2_700,
        "rekey-enum" => 15_552,
        "rekey-enum-twin" => 5_184,
        "boundary-sweep" => 512,
        "auth-enum" => 768,
        "stateless-enum" => 360,
        "soak" => 18,
        "soak-hs" | "x-soak-hs" => 20,
        _ => return None,
    })
}

pub struct Scen {
    pub name: &'static str,
    pub f: ScenarioFn,
    pub quick: u64,
    pub thorough: u64,
    pub salt: u64,
}

pub struct Check {
    pub id: &'static str,
    pub level: &'static str,
    pub scens: Vec<Scen>,
    pub rule: &'static str,
    pub enumerations: Vec<&'static str>,
}

macro_rules! scen {
    ($n:expr, $f:expr, $q:expr, $t:expr, $s:expr) => {
        Scen { name: $n, f: $f, quick: $q, thorough: $t, salt: $s }
    };
}

pub fn check_table() -> Vec<Check> {
    const RULE: &str = "runs are generated by a seeded driver (stratified over 38 patterns x psk class x DH x cipher x hash by run index, everything else PRNG); a run is non-trivial if at least one injected fault fired (for fault-free scenarios: it completed a handshake), and distinct by hash of (configuration stratum, sequence of (phase, call, result) events)";
    let mut table = vec![
        Check { id: "C01", level: "exploration", rule: RULE, enumerations: vec![], scens: vec![scen!("interop", sc_interop, 24_000, 600_000, 0x101), scen!("honest", sc_honest, 8_000, 200_000, 0x102), scen!("fail-retry", sc_fail_retry_ledger, 6_000, 100_000, 0x103), scen!("framing-boundary", sc_framing_boundary, 3_040, 10_640, 0x104), scen!("soak", sc_soak, 18, 18, 0x105)] },
        Check { id: "C02", level: "exploration", rule: RULE, enumerations: vec![], scens: vec![scen!("honest", sc_honest, 24_000, 600_000, 0x201), scen!("interop", sc_interop, 8_000, 200_000, 0x202), scen!("fail-retry", sc_fail_retry_ledger, 6_000, 100_000, 0x203), scen!("framing-boundary", sc_framing_boundary, 3_040, 10_640, 0x204), scen!("soak-hs", sc_soak_hs, 20, 20, 0x205)] },
        Check { id: "C03", level: "exploration", rule: RULE, enumerations: vec![], scens: vec![scen!("tamper-hs", sc_tamper_hs, 30_000, 800_000, 0x301), scen!("chaos", sc_chaos, 4_000, 100_000, 0x302)] },
        Check { id: "C04", level: "exploration", rule: RULE, enumerations: vec![], scens: vec![scen!("transport-auth", sc_transport_auth, 20_000, 500_000, 0x401), scen!("stateless", sc_stateless, 6_000, 100_000, 0x402), scen!("framing-boundary", sc_framing_boundary, 3_040, 10_640, 0x403), scen!("auth-enum", sc_auth_enum, 768, 768, 0x404)] },
        Check { id: "C05", level: "exploration", rule: RULE, enumerations: vec![], scens: vec![scen!("transport-sched", sc_transport_sched, 24_000, 600_000, 0x501), scen!("nonce", sc_nonce, 4_000, 100_000, 0x502), scen!("sched-enum", sc_sched_enum, 7_500, 7_500, 0x503), scen!("nonce-enum", sc_nonce_enum, 5_184, 15_552, 0x504), scen!("soak", sc_soak, 18, 18, 0x505)] },
        Check { id: "C06", level: "exploration", rule: RULE, enumerations: vec!["real-rng"], scens: vec![scen!("fail-retry-ledger", sc_fail_retry_ledger, 24_000, 600_000, 0x601), scen!("chaos", sc_chaos, 6_000, 100_000, 0x602), scen!("nonce", sc_nonce, 6_000, 100_000, 0x603), scen!("fail-retry-enum", sc_fail_retry_enum, 7_680, 30_720, 0x604)] },
        Check { id: "C07", level: "exploration", rule: RULE, enumerations: vec![], scens: vec![scen!("fail-retry-control", sc_fail_retry_control, 20_000, 500_000, 0x701), scen!("transport-sched", sc_transport_sched, 4_000, 100_000, 0x702), scen!("fail-retry-enum", sc_fail_retry_enum, 7_680, 30_720, 0x703), scen!("soak-hs", sc_soak_hs, 20, 20, 0x704)] },
        Check { id: "C08", level: "exploration", rule: RULE, enumerations: vec![], scens: vec![scen!("mismatch", sc_mismatch, 24_000, 600_000, 0x801), scen!("mismatch-cross", sc_mismatch_cross, 8_000, 200_000, 0x802)] },
        Check { id: "C09", level: "exploration", rule: RULE, enumerations: vec![], scens: vec![scen!("nonce", sc_nonce, 24_000, 600_000, 0x901), scen!("stateless", sc_stateless, 4_000, 100_000, 0x902), scen!("nonce-enum", sc_nonce_enum, 15_552, 15_552, 0x903), scen!("soak", sc_soak, 18, 18, 0x904)] },
        Check { id: "C10", level: "exploration", rule: RULE, enumerations: vec!["names"], scens: vec![scen!("chaos", sc_chaos, 16_000, 500_000, 0xA01), scen!("chaos-keys", sc_chaos_keys, 8_000, 200_000, 0xA02), scen!("framing", sc_framing, 6_000, 100_000, 0xA03), scen!("statemachine", sc_statemachine, 4_000, 100_000, 0xA04), scen!("boundary-sweep", sc_boundary_sweep, 1_536, 6_144, 0xA05), scen!("soak", sc_soak, 18, 18, 0xA06)] },
        Check { id: "C11", level: "exploration", rule: RULE, enumerations: vec![], scens: vec![scen!("statemachine", sc_statemachine, 30_000, 800_000, 0xB01), scen!("call-enum", sc_call_enum, 7_776, 279_936, 0xB02)] },
        Check { id: "C12", level: "fault_enumeration", rule: "boot half: every (pattern, role, subset of {local static, remote static} supplied, psk modifier index 0..9 / none / fallback, resolver lacking each primitive) is booted once - complete enumeration; a boot is non-trivial if it is not the all-keys-supplied no-modifier default; run-time half: seeded sessions with PSKs withheld at boot", enumerations: vec!["boot-matrix"], scens: vec![scen!("boot-runtime", sc_boot_runtime, 12_000, 300_000, 0xC01)] },
        Check { id: "C14", level: "exploration", rule: RULE, enumerations: vec![], scens: vec![scen!("framing", sc_framing, 24_000, 600_000, 0xE01), scen!("interop", sc_interop, 6_000, 100_000, 0xE02), scen!("framing-boundary", sc_framing_boundary, 10_640, 42_560, 0xE03), scen!("boundary-sweep", sc_boundary_sweep, 1_536, 6_144, 0xE04)] },
        Check { id: "C15", level: "exploration", rule: RULE, enumerations: vec![], scens: vec![scen!("rekey", sc_rekey, 24_000, 600_000, 0xF01), scen!("nonce", sc_nonce, 6_000, 100_000, 0xF02), scen!("nonce-enum", sc_nonce_enum, 15_552, 15_552, 0xF03), scen!("rekey-enum", sc_rekey_enum, 15_552, 15_552, 0xF04), scen!("soak", sc_soak, 18, 18, 0xF05)] },
        Check { id: "C16", level: "exploration", rule: RULE, enumerations: vec!["stateless-threads"], scens: vec![scen!("stateless", sc_stateless, 24_000, 600_000, 0x1001), scen!("stateless-enum", sc_stateless_enum, 360, 360, 0x1002), scen!("auth-enum", sc_auth_enum, 768, 768, 0x1003), scen!("soak", sc_soak, 18, 18, 0x1004)] },
        Check { id: "C17", level: "exploration", rule: RULE, enumerations: vec![], scens: vec![scen!("honest", sc_honest, 16_000, 400_000, 0x1101), scen!("fail-retry", sc_fail_retry_ledger, 8_000, 200_000, 0x1102)] },
        Check { id: "C19", level: "exploration", rule: RULE, enumerations: vec![], scens: vec![scen!("leak", sc_leak, 24_000, 600_000, 0x1301), scen!("tamper-hs", sc_tamper_hs, 6_000, 100_000, 0x1302), scen!("leak-enum", sc_leak_enum, 2_700, 2_700, 0x1303)] },
        Check { id: "C20", level: "exploration", rule: RULE, enumerations: vec!["fallback-table"], scens: vec![scen!("backends-twin", sc_backends_twin, 8_000, 200_000, 0x1401), scen!("rekey-enum-twin", sc_rekey_enum_twin, 5_184, 5_184, 0x1402)] },
    ];
    add_cross_slices(&mut table);
    table
}

/// Every check also runs a small slice of every seeded scenario that is not already one of its
/// own. A check reports only violations of its own property, but a symptom of that property can
/// surface in a scenario that was designed around another one (a build expectation in a
/// tampering run, a panic in a long-history run, a MissingPsk rule in a failure/retry run); the
/// slices make sure such a symptom has a check that reports it.
fn add_cross_slices(table: &mut [Check]) {
    let seeded: [(&'static str, ScenarioFn); 17] = [
        ("x-interop", sc_interop),
        ("x-honest", sc_honest),
        ("x-fail-retry", sc_fail_retry_ledger),
        ("x-tamper-hs", sc_tamper_hs),
        ("x-chaos", sc_chaos),
        ("x-chaos-keys", sc_chaos_keys),
        ("x-transport-auth", sc_transport_auth),
        ("x-transport-sched", sc_transport_sched),
        ("x-stateless", sc_stateless),
        ("x-nonce", sc_nonce),
        ("x-mismatch", sc_mismatch),
        ("x-mismatch-cross", sc_mismatch_cross),
        ("x-framing", sc_framing),
        ("x-statemachine", sc_statemachine),
        ("x-rekey", sc_rekey),
        ("x-leak", sc_leak),
        ("x-boot-runtime", sc_boot_runtime),
    ];
    for (ci, c) in table.iter_mut().enumerate() {
        let own: Vec<usize> = c.scens.iter().map(|s| s.f as usize).collect();
        for (k, (name, f)) in seeded.iter().enumerate() {
            if own.contains(&(*f as usize)) {
                continue;
            }
            c.scens.push(Scen { name, f: *f, quick: 1_500, thorough: 30_000, salt: 0xC000 + (ci as u64) * 64 + k as u64 });
        }
        // the long handshake histories are cheap enough for every check
        if !own.contains(&(sc_soak_hs as ScenarioFn as usize)) {
            c.scens.push(Scen { name: "x-soak-hs", f: sc_soak_hs, quick: 20, thorough: 20, salt: 0xC000 + (ci as u64) * 64 + 40 });
        }
    }
}
