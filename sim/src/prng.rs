//! The only source of pseudo-randomness in the simulator.
//! splitmix64 for seeding / derivation, xoshiro256** for streams.

#[inline]
pub fn splitmix64(x: &mut u64) -> u64 {
    *x = x.wrapping_add(0x9E37_79B9_7F4A_7C15);
    let mut z = *x;
    z = (z ^ (z >> 30)).wrapping_mul(0xBF58_476D_1CE4_E5B9);
    z = (z ^ (z >> 27)).wrapping_mul(0x94D0_49BB_1331_11EB);
    z ^ (z >> 31)
}

/// Stateless mix of two words (domain separation).
#[inline]
pub fn mix(a: u64, b: u64) -> u64 {
    let mut x = a ^ b.wrapping_mul(0x9E37_79B9_7F4A_7C15).rotate_left(23);
    let r = splitmix64(&mut x);
    r ^ splitmix64(&mut x).rotate_left(17)
}

#[derive(Clone, Debug)]
pub struct Rng {
    s: [u64; 4],
}

impl Rng {
    pub fn new(seed: u64) -> Self {
        let mut x = seed;
        let s = [splitmix64(&mut x), splitmix64(&mut x), splitmix64(&mut x), splitmix64(&mut x)];
        Rng { s }
    }

    #[inline]
    pub fn next_u64(&mut self) -> u64 {
        let r = self.s[1].wrapping_mul(5).rotate_left(7).wrapping_mul(9);
        let t = self.s[1] << 17;
        self.s[2] ^= self.s[0];
        self.s[3] ^= self.s[1];
        self.s[1] ^= self.s[2];
        self.s[0] ^= self.s[3];
        self.s[2] ^= t;
        self.s[3] = self.s[3].rotate_left(45);
        r
    }

    /// Uniform in 0..n (n>0). Modulo bias is irrelevant here.
    #[inline]
    pub fn below(&mut self, n: u64) -> u64 {
        debug_assert!(n > 0);
        self.next_u64() % n
    }

    #[inline]
    pub fn usize_below(&mut self, n: usize) -> usize {
        self.below(n as u64) as usize
    }

    /// inclusive range
    #[inline]
    pub fn range(&mut self, lo: u64, hi: u64) -> u64 {
        lo + self.below(hi - lo + 1)
    }

    /// true with probability num/den
    #[inline]
    pub fn chance(&mut self, num: u64, den: u64) -> bool {
        self.below(den) < num
    }

    pub fn fill(&mut self, buf: &mut [u8]) {
        for chunk in buf.chunks_mut(8) {
            let v = self.next_u64().to_le_bytes();
            chunk.copy_from_slice(&v[..chunk.len()]);
        }
    }

    pub fn bytes(&mut self, n: usize) -> Vec<u8> {
        let mut v = vec![0u8; n];
        self.fill(&mut v);
        v
    }

    pub fn pick<'a, T>(&mut self, xs: &'a [T]) -> &'a T {
        &xs[self.usize_below(xs.len())]
    }
}

/// Deterministic bytes from a small seed (used for payloads / garbage so that ops stay small).
pub fn seeded_bytes(seed: u64, n: usize) -> Vec<u8> {
    Rng::new(mix(seed, 0xB17E5)).bytes(n)
}

/// FNV-1a 64 over bytes, used for trace hashes (not security relevant).
#[derive(Clone, Copy)]
pub struct Fnv(pub u64);
impl Fnv {
    pub fn new() -> Self {
        Fnv(0xcbf2_9ce4_8422_2325)
    }
    #[inline]
    pub fn write(&mut self, b: &[u8]) {
        let mut h = self.0;
        for &x in b {
            h ^= x as u64;
            h = h.wrapping_mul(0x0000_0100_0000_01B3);
        }
        // length framing
        h ^= b.len() as u64;
        h = h.wrapping_mul(0x0000_0100_0000_01B3);
        self.0 = h;
    }
    #[inline]
    pub fn write_u64(&mut self, v: u64) {
        self.write(&v.to_le_bytes());
    }
}

/// 128-bit content hash (two independent FNV-style lanes) for the cipher ledger.
pub fn hash128(b: &[u8]) -> (u64, u64) {
    let mut a = Fnv::new();
    a.write(b);
    let mut h2: u64 = 0x9E37_79B9_7F4A_7C15 ^ (b.len() as u64);
    for chunk in b.chunks(8) {
        let mut w = [0u8; 8];
        w[..chunk.len()].copy_from_slice(chunk);
        h2 = mix(h2, u64::from_le_bytes(w));
    }
    (a.0, h2)
}
