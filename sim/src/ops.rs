//! Configuration and operation language of a simulated run. Everything here is plain data that
//! serialises to the replay file; replay interprets it directly (no PRNG involved).

use crate::seam::{Backend, Prim, RngMode};
use serde::{Deserialize, Serialize};

pub mod hexser {
    use serde::{Deserialize, Deserializer, Serializer};
    pub fn serialize<S: Serializer>(v: &Vec<u8>, s: S) -> Result<S::Ok, S::Error> {
        s.serialize_str(&hex::encode(v))
    }
    pub fn deserialize<'de, D: Deserializer<'de>>(d: D) -> Result<Vec<u8>, D::Error> {
        let s = String::deserialize(d)?;
        hex::decode(s).map_err(serde::de::Error::custom)
    }
}
pub mod hexopt {
    use serde::{Deserialize, Deserializer, Serializer};
    pub fn serialize<S: Serializer>(v: &Option<Vec<u8>>, s: S) -> Result<S::Ok, S::Error> {
        match v {
            Some(v) => s.serialize_some(&hex::encode(v)),
            None => s.serialize_none(),
        }
    }
    pub fn deserialize<'de, D: Deserializer<'de>>(d: D) -> Result<Option<Vec<u8>>, D::Error> {
        let s = Option::<String>::deserialize(d)?;
        match s {
            Some(s) => hex::decode(s).map(Some).map_err(serde::de::Error::custom),
            None => Ok(None),
        }
    }
}

#[derive(Clone, Debug, Serialize, Deserialize)]
pub struct PskCfg {
    pub idx: u8,
    #[serde(with = "hexser")]
    pub key: Vec<u8>,
    /// supplied to the builder (true) or only later through set_psk (false)
    pub at_boot: bool,
}

#[derive(Clone, Debug, Serialize, Deserialize)]
pub struct NodeCfg {
    pub name: String,
    pub initiator: bool,
    #[serde(with = "hexopt")]
    pub s_priv: Option<Vec<u8>>,
    #[serde(with = "hexopt")]
    pub rs_pub: Option<Vec<u8>>,
    /// the PSK values this node will use (its own view; a mismatch scenario makes them differ
    /// between peers)
    pub psks: Vec<PskCfg>,
    #[serde(with = "hexser")]
    pub prologue: Vec<u8>,
    pub backend: Backend,
    pub rng_seed: u64,
    pub deny: Option<Prim>,
    /// 0: every request for the denied primitive fails; k >= 1: only the k-th request does (the
    /// builder asks for two DH and three cipher objects)
    #[serde(default)]
    pub deny_at: u8,
    /// byzantine peer: this node announces a static public key that is not a valid curve point
    /// (everything else it does follows the protocol)
    #[serde(default)]
    pub evil_static_pub: bool,
    /// order of the builder calls: % 24 = permutation of (psks, local key, remote key, prologue);
    /// bit 5: an empty prologue is not passed at all; bit 6: PSKs supplied in reverse order
    #[serde(default)]
    pub build_order: u8,
}

#[derive(Clone, Debug, Serialize, Deserialize)]
pub struct RunCfg {
    pub scenario: String,
    /// nodes 2k and 2k+1 are peers (session k)
    pub nodes: Vec<NodeCfg>,
    pub rng_mode: RngMode,
    /// wrap ciphers in the recording pass-through
    pub record: bool,
    /// configuration stratum label (for coverage accounting)
    pub stratum: String,
    /// the two peers of session 0 were deliberately configured with differing context
    #[serde(default)]
    pub mismatch: bool,
}

#[derive(Clone, Copy, Debug, Serialize, Deserialize, PartialEq)]
pub enum Buf {
    /// comfortably large (needed + 64)
    Ample,
    /// exactly the needed length
    Exact,
    /// needed + delta (clamped at 0)
    Delta(i32),
    /// absolute length
    Abs(u32),
    /// start offset of field `field` of the message's field map, plus delta
    AtField { field: u8, delta: i8 },
}

#[derive(Clone, Copy, Debug, Serialize, Deserialize, PartialEq)]
pub enum NonceSel {
    /// stateful: ignored; stateless write: next unused nonce of this node; stateless read: the
    /// nonce the message was written under
    Auto,
    /// explicit value (stateless only)
    At(u64),
}

#[derive(Clone, Copy, Debug, Serialize, Deserialize, PartialEq)]
pub enum Src {
    /// oldest in-flight message for this node (consumed)
    Next,
    /// k-th oldest in-flight (clamped); consumed or left in flight
    Pick { k: u8, consume: bool },
    /// the idx-th message ever written by node `from` (replay, reflection, cross-session)
    Hist { from: u8, idx: u16 },
    /// seeded random bytes
    Garbage { len: u32, seed: u32 },
    /// a transport message forged by a non-conforming peer that holds the session keys: an
    /// authentic AEAD ciphertext (under the receiver's current key; nonce = the receiver's counter,
    /// or 0 for a stateless receiver) of a payload of `plen` bytes - possibly larger than any
    /// conforming writer may produce
    Forged { plen: u32, pseed: u32 },
}

#[derive(Clone, Copy, Debug, Serialize, Deserialize, PartialEq)]
pub enum Mutation {
    None,
    /// flip bit `bit` of byte (`pos` mod field length) of field (`field` mod #fields)
    Flip { field: u8, pos: u32, bit: u8 },
    /// cut the message to `to` bytes
    TruncAbs { to: u32 },
    /// cut at start of field `field` + delta
    TruncField { field: u8, delta: i8 },
    /// append `by` bytes of `fill`
    Extend { by: u32, fill: u8 },
    /// k seeded byte edits
    Multi { k: u8, seed: u32 },
    /// overwrite every byte of field (`field` mod #fields) with `byte` (e.g. an all-zero point)
    SetField { field: u8, byte: u8 },
    /// set one byte (`pos` mod field length) of a field to `byte`
    ByteSet { field: u8, pos: u32, byte: u8 },
    /// cut the last `n` bytes
    TruncLast { n: u8 },
}

#[derive(Clone, Copy, Debug, Serialize, Deserialize, PartialEq)]
pub enum PskKind {
    /// the value from this node's configuration
    Configured,
    /// a different 32-byte value
    Wrong,
    /// a value of the given (wrong) length
    BadLen(u32),
}

#[derive(Clone, Copy, Debug, Serialize, Deserialize, PartialEq)]
pub enum RekeyKind {
    Outgoing,
    Incoming,
    /// install manual key `id` for the initiator->responder direction
    ManualI(u8),
    /// install manual key `id` for the responder->initiator direction
    ManualR(u8),
    /// install manual key `id` for both directions in one call
    ManualBoth(u8),
    /// rekey_manually(None, None): nothing may change
    ManualNone,
}

#[derive(Clone, Copy, Debug, Serialize, Deserialize, PartialEq)]
pub enum Op {
    /// write a message in whatever phase the node is in
    Write { node: u8, plen: u32, pseed: u32, buf: Buf, nonce: NonceSel },
    /// read a message in whatever phase the node is in
    Read { node: u8, src: Src, mutation: Mutation, out: Buf, nonce: NonceSel },
    SetPsk { node: u8, idx: u64, kind: PskKind },
    Convert { node: u8, stateless: bool },
    SetRecvNonce { node: u8, v: u64 },
    SetSendNonce { node: u8, v: u64 },
    Rekey { node: u8, which: RekeyKind },
    /// lose the k-th in-flight message addressed to `node`
    Drop { node: u8, k: u8 },
    /// duplicate the k-th in-flight message addressed to `node` (copy appended at the back)
    Dup { node: u8, k: u8 },
    /// move the k-th in-flight message addressed to `node` to the back (delay / reorder)
    Delay { node: u8, k: u8 },
    /// read all observers
    Query { node: u8 },
    /// Builder::generate_keypair() through this node's resolver and RNG seam (twice)
    Keygen { node: u8 },
    /// `count` deliveries of distinct seeded garbage messages of `len` bytes to `node` (long
    /// histories: state that only matters after very many rejected deliveries)
    GarbageBurst { node: u8, count: u32, len: u16, seed: u32 },
    /// `count` times: `node` writes a `plen`-byte message and its peer reads it in order
    TrafficBurst { node: u8, count: u32, plen: u16 },
    /// `count` times: `node` rekeys its sending direction and its peer the matching receiving one
    RekeyBurst { node: u8, count: u32 },
    /// marks the start of the fault-free epilogue (bookkeeping only)
    Epilogue,
}

impl Op {
    pub fn kind(&self) -> &'static str {
        match self {
            Op::Write { .. } => "write",
            Op::Read { .. } => "read",
            Op::SetPsk { .. } => "setpsk",
            Op::Convert { .. } => "convert",
            Op::SetRecvNonce { .. } => "setrecv",
            Op::SetSendNonce { .. } => "setsend",
            Op::Rekey { .. } => "rekey",
            Op::Drop { .. } => "drop",
            Op::Dup { .. } => "dup",
            Op::Delay { .. } => "delay",
            Op::Query { .. } => "query",
            Op::Keygen { .. } => "keygen",
            Op::GarbageBurst { .. } => "garbage-burst",
            Op::TrafficBurst { .. } => "traffic-burst",
            Op::RekeyBurst { .. } => "rekey-burst",
            Op::Epilogue => "epilogue",
        }
    }
}

#[derive(Clone, Debug, Serialize, Deserialize, PartialEq, Eq, Hash, PartialOrd, Ord)]
pub struct Violation {
    pub prop: String,
    pub clause: String,
    /// abstract site (op kind, phase, field/boundary class ...) - never a source line
    pub site: String,
    pub detail: String,
    pub op_index: usize,
}

#[derive(Clone, Debug, Serialize, Deserialize)]
pub struct ReplayFile {
    pub property: String,
    pub clause: String,
    pub site: String,
    pub detail: String,
    pub verif_seed: u64,
    pub run_index: u64,
    pub run_seed: u64,
    pub cfg: RunCfg,
    pub ops: Vec<Op>,
    pub original_op_count: usize,
    /// extra execution mode (e.g. "control" comparison, "twin" universes)
    pub mode: String,
    /// which simulator build found it: "main" or "plain" (the second build, snow as a user's
    /// release build compiles it); a replay is re-executed by the same build
    #[serde(default)]
    pub build: String,
}
