//! Execution of runs: live generation, replay of recorded op lists (plain / control / twin),
//! the 16-way farm, minimisation.

use crate::ops::*;
use crate::prng::{mix, splitmix64, Rng};
use crate::seam::Backend;
use crate::world::{Stats, WireEv, World};
use std::collections::BTreeSet;
use std::sync::atomic::{AtomicBool, AtomicU64, Ordering};
use std::sync::{Arc, Mutex};

pub fn run_seed(verif_seed: u64, idx: u64) -> u64 {
    let mut x = verif_seed ^ idx.wrapping_mul(0x9E37_79B9_7F4A_7C15);
    splitmix64(&mut x)
}

#[derive(Clone)]
pub struct RunOut {
    pub idx: u64,
    pub seed: u64,
    pub cfg: RunCfg,
    pub ops: Vec<Op>,
    pub mode: String,
    pub viol: Vec<Violation>,
    pub stats: Stats,
    pub trace: u64,
    pub abstract_trace: u64,
    pub faults: u64,
}

pub struct Exec {
    pub viol: Vec<Violation>,
    pub stats: Stats,
    pub trace: u64,
    pub class_trace: u64,
    pub abstract_trace: u64,
    pub faults: u64,
    pub wire: Vec<WireEv>,
    pub failed_ops: Vec<bool>,
}

/// Interpret an op list against a fresh world (no PRNG involved).
pub fn exec_plain(cfg: &RunCfg, ops: &[Op]) -> Exec {
    let mut w = World::new(cfg.clone());
    let mut failed = vec![false; ops.len()];
    for (i, op) in ops.iter().enumerate() {
        let e0: u64 = w.errs.iter().sum();
        w.apply(i, op);
        let e1: u64 = w.errs.iter().sum();
        failed[i] = e1 > e0;
    }
    w.finish();
    finish_exec(w, failed)
}

pub fn finish_exec(w: World, failed_ops: Vec<bool>) -> Exec {
    Exec {
        viol: w.viol,
        stats: w.stats,
        trace: w.trace.0,
        class_trace: w.class_trace.0,
        abstract_trace: w.abstract_trace.0,
        faults: w.faults_in_run,
        wire: w.wire,
        failed_ops,
    }
}

/// C07 control run: the same session with every failed call removed must put exactly the same
/// bytes on the wire and hand exactly the same payloads to the application.
pub fn control_compare(cfg: &RunCfg, ops: &[Op], plain: &Exec) -> Vec<Violation> {
    let mut v = vec![];
    if !plain.failed_ops.iter().any(|f| *f) {
        return v;
    }
    // a failed call is removed; if it took a message out of flight, the loss itself is kept
    let kept: Vec<Op> = ops
        .iter()
        .zip(plain.failed_ops.iter())
        .filter_map(|(o, f)| {
            if !*f {
                return Some(*o);
            }
            match *o {
                Op::Read { node, src: Src::Next, .. } => Some(Op::Drop { node, k: 0 }),
                Op::Read { node, src: Src::Pick { k, consume: true }, .. } => Some(Op::Drop { node, k }),
                _ => None,
            }
        })
        .collect();
    let ctrl = exec_plain(cfg, &kept);
    if ctrl.failed_ops.iter().any(|f| *f) {
        // the control run itself must be failure-free, otherwise the comparison is meaningless
        return v;
    }
    if ctrl.wire != plain.wire {
        let pos = ctrl.wire.iter().zip(plain.wire.iter()).position(|(a, b)| a != b).unwrap_or(ctrl.wire.len().min(plain.wire.len()));
        let what = match (ctrl.wire.get(pos), plain.wire.get(pos)) {
            (Some(c), Some(p)) => format!(
                "event {pos}: control node{} {} {} bytes, faulted node{} {} {} bytes",
                c.node,
                if c.write { "wrote" } else { "read" },
                c.bytes.len(),
                p.node,
                if p.write { "wrote" } else { "read" },
                p.bytes.len()
            ),
            _ => format!("event {pos}: lengths control={} faulted={}", ctrl.wire.len(), plain.wire.len()),
        };
        v.push(Violation {
            prop: "C07".into(),
            clause: "diverges-from-control-run".into(),
            site: "control".into(),
            detail: what,
            op_index: usize::MAX,
        });
    }
    v
}

pub const TWIN_ASSIGNMENTS: [(Backend, Backend); 5] = [
    (Backend::Default, Backend::Default),
    (Backend::RingFirst, Backend::RingFirst),
    (Backend::Default, Backend::RingFirst),
    (Backend::RingFirst, Backend::DefaultFirst),
    (Backend::DefaultFirst, Backend::Default),
];

/// C20 twin universes: the same run under different backend assignments must produce identical
/// wire bytes, results and payloads.
pub fn twin_compare(cfg: &RunCfg, ops: &[Op]) -> (Vec<Violation>, Vec<Exec>) {
    let mut v = vec![];
    let mut execs = vec![];
    for (ba, bb) in TWIN_ASSIGNMENTS.iter() {
        let mut c = cfg.clone();
        for (i, n) in c.nodes.iter_mut().enumerate() {
            n.backend = if i % 2 == 0 { *ba } else { *bb };
        }
        execs.push(exec_plain(&c, ops));
    }
    for (k, e) in execs.iter().enumerate().skip(1) {
        if e.wire != execs[0].wire || e.class_trace != execs[0].class_trace {
            let pos = e.wire.iter().zip(execs[0].wire.iter()).position(|(a, b)| a != b);
            v.push(Violation {
                prop: "C20".into(),
                clause: "universes-diverge".into(),
                site: format!("{:?}-vs-{:?}", TWIN_ASSIGNMENTS[k], TWIN_ASSIGNMENTS[0]),
                detail: format!("first differing wire event: {pos:?}; name={}", cfg.nodes[0].name),
                op_index: usize::MAX,
            });
        }
    }
    (v, execs)
}

/// Execute a recorded run in the given mode and return all violations.
pub fn exec_mode(cfg: &RunCfg, ops: &[Op], mode: &str) -> Exec {
    match mode {
        "control" => {
            let mut e = exec_plain(cfg, ops);
            let extra = control_compare(cfg, ops, &e);
            e.viol.extend(extra);
            e
        },
        "twin" => {
            let (v, mut execs) = twin_compare(cfg, ops);
            let mut e = execs.remove(0);
            for other in execs {
                // violations seen in any universe count (dedup by class later)
                e.viol.extend(other.viol);
                e.stats.merge(&other.stats);
            }
            e.viol.extend(v);
            e
        },
        _ => exec_plain(cfg, ops),
    }
}

pub type ScenarioFn = fn(idx: u64, seed: u64, thorough: bool) -> RunOut;

pub struct FarmOut {
    pub runs: u64,
    pub stats: Stats,
    pub combined_trace: u64,
    pub distinct: BTreeSet<u64>,
    pub fault_free_runs: u64,
    pub faulted_runs: u64,
    pub violating: Vec<RunOut>,
    /// number of runs with at least one violation of any property (the runs kept in `violating`
    /// are the lowest-index representatives of each class)
    pub violating_runs: u64,
    pub samples: Vec<RunOut>,
    pub per_run_traces: Vec<(u64, u64)>,
    pub hang: Option<(u64, u64)>,
    pub harness_panics: Vec<String>,
    pub strata: BTreeSet<String>,
}

/// Run indices `0..n` of `f` on `workers` threads. Every run is a pure function of
/// (verif_seed, idx), results are merged with commutative operations, so the outcome does not
/// depend on the worker count.
pub fn farm(f: ScenarioFn, verif_seed: u64, salt: u64, n: u64, thorough: bool, workers: usize, keep_traces: bool) -> FarmOut {
    let next = Arc::new(AtomicU64::new(0));
    let out = Arc::new(Mutex::new(FarmOut {
        runs: 0,
        stats: Stats::default(),
        combined_trace: 0,
        distinct: BTreeSet::new(),
        fault_free_runs: 0,
        faulted_runs: 0,
        violating: vec![],
        violating_runs: 0,
        samples: vec![],
        per_run_traces: vec![],
        hang: None,
        harness_panics: vec![],
        strata: BTreeSet::new(),
    }));
    // watchdog state: per worker (idx+1, start time in ms); 0 = idle
    let started: Arc<Vec<(AtomicU64, AtomicU64)>> =
        Arc::new((0..workers).map(|_| (AtomicU64::new(0), AtomicU64::new(0))).collect());
    let done = Arc::new(AtomicBool::new(false));
    let t0 = std::time::Instant::now();
    let wd = {
        let started = started.clone();
        let done = done.clone();
        let out = out.clone();
        std::thread::spawn(move || {
            while !done.load(Ordering::Relaxed) {
                std::thread::sleep(std::time::Duration::from_millis(500));
                let now = t0.elapsed().as_millis() as u64;
                for s in started.iter() {
                    let idx1 = s.0.load(Ordering::Relaxed);
                    let st = s.1.load(Ordering::Relaxed);
                    if idx1 != 0 && now.saturating_sub(st) > 60_000 {
                        let mut o = out.lock().unwrap();
                        if o.hang.is_none() {
                            o.hang = Some((idx1 - 1, now - st));
                        }
                        done.store(true, Ordering::Relaxed);
                    }
                }
            }
        })
    };
    let mut handles = vec![];
    for wi in 0..workers {
        let next = next.clone();
        let out = out.clone();
        let started = started.clone();
        let done = done.clone();
        handles.push(std::thread::spawn(move || {
            crate::world::install_panic_hook();
            let mut local_stats = Stats::default();
            let mut local_distinct = BTreeSet::new();
            let mut local_trace = 0u64;
            let mut local_runs = 0u64;
            let (mut ff, mut fl) = (0u64, 0u64);
            let mut local_viol: Vec<RunOut> = vec![];
            let mut local_class_min: std::collections::BTreeMap<(String, String, String), u64> = Default::default();
            let mut viol_runs_counter = 0u64;
            let local_viol_runs = &mut viol_runs_counter;
            let mut local_samples = vec![];
            let mut local_traces = vec![];
            let mut local_strata: BTreeSet<String> = BTreeSet::new();
            loop {
                if done.load(Ordering::Relaxed) {
                    break;
                }
                let idx = next.fetch_add(1, Ordering::Relaxed);
                if idx >= n {
                    break;
                }
                started[wi].1.store(t0.elapsed().as_millis() as u64, Ordering::Relaxed);
                started[wi].0.store(idx + 1, Ordering::Relaxed);
                let seed = run_seed(mix(verif_seed, salt), idx);
                let r = match std::panic::catch_unwind(|| f(idx, seed, thorough)) {
                    Ok(r) => r,
                    Err(_) => {
                        let msg = crate::world::LAST_PANIC.with(|p| p.borrow_mut().take()).unwrap_or_default();
                        started[wi].0.store(0, Ordering::Relaxed);
                        out.lock().unwrap().harness_panics.push(format!("run {idx}: {msg}"));
                        continue;
                    },
                };
                started[wi].0.store(0, Ordering::Relaxed);
                local_runs += 1;
                local_stats.merge(&r.stats);
                local_trace = local_trace.wrapping_add(mix(idx, r.trace));
                if keep_traces {
                    local_traces.push((idx, r.trace));
                }
                {
                    let base: Vec<&str> = r.cfg.stratum.split('/').take(5).collect();
                    let b = base.join("/");
                    if !local_strata.contains(&b) {
                        local_strata.insert(b);
                    }
                }
                if r.faults > 0 {
                    fl += 1;
                } else {
                    ff += 1;
                }
                let nontrivial = r.faults > 0 || r.stats.probes.get("session-both-finished").copied().unwrap_or(0) > 0 || !r.viol.is_empty();
                if nontrivial {
                    local_distinct.insert(mix(r.abstract_trace, crate::prng::hash128(r.cfg.stratum.as_bytes()).0));
                }
                if idx < 3 {
                    local_samples.push(r.clone());
                }
                if !r.viol.is_empty() {
                    // keep, per violation class, the run with the lowest index: independent of
                    // thread timing, and plentiful classes cannot crowd out rare ones
                    let mut keep = false;
                    for v in &r.viol {
                        let key = (v.prop.clone(), v.clause.clone(), v.site.clone());
                        let e = local_class_min.entry(key).or_insert(u64::MAX);
                        if r.idx < *e {
                            *e = r.idx;
                            keep = true;
                        }
                    }
                    *local_viol_runs += 1;
                    if keep {
                        local_viol.push(r);
                        if local_viol.len() > 256 {
                            // drop runs that are no longer the minimum of any class
                            local_viol.retain(|x| x.viol.iter().any(|v| local_class_min.get(&(v.prop.clone(), v.clause.clone(), v.site.clone())) == Some(&x.idx)));
                        }
                    }
                }
            }
            let mut o = out.lock().unwrap();
            o.runs += local_runs;
            o.stats.merge(&local_stats);
            o.combined_trace = o.combined_trace.wrapping_add(local_trace);
            o.distinct.extend(local_distinct);
            o.fault_free_runs += ff;
            o.faulted_runs += fl;
            o.violating.extend(local_viol);
            o.violating_runs += viol_runs_counter;
            o.samples.extend(local_samples);
            o.per_run_traces.extend(local_traces);
            o.strata.extend(local_strata);
        }));
    }
    // wait for the workers, or for the watchdog to flag a call that does not return
    loop {
        if handles.iter().all(|h| h.is_finished()) {
            break;
        }
        if out.lock().unwrap().hang.is_some() {
            break;
        }
        std::thread::sleep(std::time::Duration::from_millis(5));
    }
    let hung = out.lock().unwrap().hang.is_some();
    if !hung {
        for h in handles {
            let _ = h.join();
        }
    }
    done.store(true, Ordering::Relaxed);
    let _ = wd.join();
    let mut o = {
        let mut g = out.lock().unwrap();
        std::mem::replace(
            &mut *g,
            FarmOut {
                runs: 0,
                stats: Stats::default(),
                combined_trace: 0,
                distinct: BTreeSet::new(),
                fault_free_runs: 0,
                faulted_runs: 0,
                violating: vec![],
                violating_runs: 0,
                samples: vec![],
                per_run_traces: vec![],
                hang: None,
                harness_panics: vec![],
                strata: BTreeSet::new(),
            },
        )
    };
    o.violating.sort_by_key(|r| r.idx);
    o.samples.sort_by_key(|r| r.idx);
    o.per_run_traces.sort();
    o
}

/// Delta-debugging over the op list: keep a candidate only if the same violation class
/// (property, clause) is still reported.
pub fn shrink(cfg: &RunCfg, ops: &[Op], mode: &str, prop: &str, clause: &str) -> Vec<Op> {
    let has = |ops: &[Op]| -> bool {
        let e = exec_mode(cfg, ops, mode);
        e.viol.iter().any(|v| v.prop == prop && v.clause == clause)
    };
    let mut cur: Vec<Op> = ops.to_vec();
    let t0 = std::time::Instant::now();
    if !has(&cur) {
        return cur;
    }
    // long-history runs: one execution may take seconds, so the budget is also bounded in time
    let per_exec = t0.elapsed().as_secs_f64().max(0.0005);
    let mut chunk = (cur.len() / 2).max(1);
    let mut budget: i64 = (400.0f64).min(40.0 / per_exec).max(8.0) as i64;
    loop {
        let mut i = 0;
        let mut progressed = false;
        while i < cur.len() && budget > 0 {
            let end = (i + chunk).min(cur.len());
            let mut cand = cur[..i].to_vec();
            cand.extend_from_slice(&cur[end..]);
            budget -= 1;
            if has(&cand) {
                cur = cand;
                progressed = true;
            } else {
                i = end;
            }
        }
        if budget <= 0 {
            break;
        }
        if chunk == 1 && !progressed {
            break;
        }
        if !progressed || chunk > 1 {
            chunk = (chunk / 2).max(1);
        }
    }
    // burst counts towards small values (halving)
    for k in 0..cur.len() {
        loop {
            if budget <= 0 {
                break;
            }
            let cand_op = match cur[k] {
                Op::GarbageBurst { node, count, len, seed } if count > 1 => Op::GarbageBurst { node, count: count / 2, len, seed },
                Op::TrafficBurst { node, count, plen } if count > 1 => Op::TrafficBurst { node, count: count / 2, plen },
                Op::RekeyBurst { node, count } if count > 1 => Op::RekeyBurst { node, count: count / 2 },
                _ => break,
            };
            let mut cand = cur.clone();
            cand[k] = cand_op;
            budget -= 1;
            if has(&cand) {
                cur = cand;
            } else {
                break;
            }
        }
    }
    // argument shrinking: payload lengths towards small values
    for k in 0..cur.len() {
        if budget <= 0 {
            break;
        }
        if let Op::Write { node, plen, pseed, buf, nonce } = cur[k] {
            for cand_len in [0u32, 1, 16] {
                if cand_len < plen {
                    let mut cand = cur.clone();
                    cand[k] = Op::Write { node, plen: cand_len, pseed, buf, nonce };
                    budget -= 1;
                    if has(&cand) {
                        cur = cand;
                        break;
                    }
                }
            }
        }
    }
    cur
}

pub fn gen_rng(seed: u64) -> Rng {
    Rng::new(mix(seed, 0x5C4E_D0))
}

/// Configuration simplification after op-list minimisation: drop the parallel session, use the
/// default backend everywhere, empty prologue - each kept only if the same class persists.
pub fn shrink_cfg(cfg: &RunCfg, ops: &[Op], mode: &str, prop: &str, clause: &str) -> (RunCfg, Vec<Op>) {
    let has = |c: &RunCfg, o: &[Op]| -> bool {
        let e = exec_mode(c, o, mode);
        e.viol.iter().any(|v| v.prop == prop && v.clause == clause)
    };
    let mut cur_cfg = cfg.clone();
    let mut cur_ops = ops.to_vec();
    let node_of = |op: &Op| -> Option<u8> {
        match op {
            Op::Write { node, .. } | Op::Read { node, .. } | Op::SetPsk { node, .. } | Op::Convert { node, .. } | Op::SetRecvNonce { node, .. } | Op::SetSendNonce { node, .. } | Op::Rekey { node, .. } | Op::Drop { node, .. } | Op::Dup { node, .. } | Op::Delay { node, .. } | Op::Query { node } | Op::Keygen { node } | Op::GarbageBurst { node, .. } | Op::TrafficBurst { node, .. } | Op::RekeyBurst { node, .. } => Some(*node),
            Op::Epilogue => None,
        }
    };
    if cur_cfg.nodes.len() > 2 {
        let uses_other = cur_ops.iter().any(|op| matches!(op, Op::Read { src: Src::Hist { from, .. }, .. } if *from >= 2));
        if !uses_other {
            let mut c = cur_cfg.clone();
            c.nodes.truncate(2);
            let o: Vec<Op> = cur_ops.iter().filter(|op| node_of(op).map_or(true, |n| n < 2)).cloned().collect();
            if has(&c, &o) {
                cur_cfg = c;
                cur_ops = o;
            }
        }
    }
    {
        let mut c = cur_cfg.clone();
        for n in c.nodes.iter_mut() {
            n.backend = Backend::Default;
        }
        if has(&c, &cur_ops) {
            cur_cfg = c;
        }
    }
    {
        let mut c = cur_cfg.clone();
        for n in c.nodes.iter_mut() {
            n.prologue.clear();
        }
        if has(&c, &cur_ops) {
            cur_cfg = c;
        }
    }
    (cur_cfg, cur_ops)
}
