//! Scenario drivers: configuration generation (stratified + PRNG) and the seeded "application
//! driver + network" that decides every operation, delivery and fault of a run.

use crate::ops::*;
use crate::prng::{mix, Rng};
use crate::refnoise::{pattern_names, CipherK, DhK, HashK, Proto};
use crate::seam::{Backend, RngMode};
use crate::world::{St, World};

pub const DHS: [DhK; 2] = [DhK::X25519, DhK::P256];
pub const CIPHERS: [CipherK; 3] = [CipherK::ChaChaPoly, CipherK::AesGcm, CipherK::XChaChaPoly];
pub const HASHES: [HashK; 4] = [HashK::Sha256, HashK::Sha512, HashK::Blake2s, HashK::Blake2b];

#[derive(Clone, Copy, PartialEq, Eq, Debug)]
pub enum BackendMix {
    DefaultOnly,
    /// any backend on any node (names ring cannot fully serve fall back per primitive)
    Any,
}

#[derive(Clone, Debug)]
pub struct CfgOpts {
    pub rng_mode: RngMode,
    pub record: bool,
    pub sessions: usize,
    pub backends: BackendMix,
    /// parallel session reuses the static keys of session 0
    pub parallel_same_statics: bool,
    /// probability (per mille) that a needed PSK is withheld at boot and supplied later
    pub late_psk: u32,
    /// restrict DH (None = stratified over both)
    pub only_dh: Option<DhK>,
    /// per mille of static keys produced by snow's own Builder::generate_keypair (through the
    /// RNG seam) instead of the harness
    pub snow_keygen: u32,
    /// per mille of nodes that are given the peer's (true) static public key although the pattern
    /// does not pre-share it (a pinned, superfluous key - allowed by the builder)
    pub surplus_rs: u32,
    /// per mille of P-256 sessions in which one party is byzantine: it announces (transmits) a
    /// static public key that is not a curve point, and otherwise follows the protocol
    pub evil_pub: u32,
    /// per mille of X25519 sessions in which a pre-shared remote static key is given in a
    /// non-canonical encoding (p + k, k in 2..=18), which RFC 7748 requires to be accepted
    pub noncanonical_rs: u32,
    /// per mille of sessions in which one node's resolver refuses a primitive (all requests or
    /// only the k-th): the build must fail with an error, never panic
    pub deny_any: u32,
    /// per mille of sessions in which one node's resolver has no random source (build result is
    /// a don't-care; if it builds, every ephemeral must still come from the resolver's source)
    pub deny_rng: u32,
    /// per mille of nodes that are given a PSK in a slot the protocol name does not use (the
    /// builder takes it; it must never be used)
    pub surplus_psk: u32,
    /// per mille of sessions in which both parties hold the SAME static key pair (shared service
    /// identity / self-connection; Noise has no rule against it)
    pub same_statics: u32,
    /// use exactly this protocol name (systematic enumerations)
    pub force_name: Option<String>,
    /// use exactly this backend on both nodes
    pub force_backend: Option<Backend>,
}

impl Default for CfgOpts {
    fn default() -> Self {
        CfgOpts {
            rng_mode: RngMode::Stream,
            record: false,
            sessions: 1,
            backends: BackendMix::Any,
            parallel_same_statics: true,
            late_psk: 0,
            only_dh: None,
            snow_keygen: 0,
            surplus_rs: 0,
            evil_pub: 0,
            noncanonical_rs: 0,
            same_statics: 0,
            surplus_psk: 0,
            deny_any: 0,
            deny_rng: 0,
            force_name: None,
            force_backend: None,
        }
    }
}

/// Stratum of run `idx`: (pattern, psk class, dh, cipher, hash) by mixed radix, so that any
/// 38*5*24 consecutive indices visit every combination.
pub fn stratum(idx: u64) -> (usize, usize, DhK, CipherK, HashK) {
    let p = (idx % 38) as usize;
    let k = ((idx / 38) % 5) as usize;
    let t = ((idx / 190) % 24) as usize;
    (p, k, DHS[t % 2], CIPHERS[(t / 2) % 3], HASHES[(t / 6) % 4])
}

pub fn gen_name(rng: &mut Rng, idx: u64, only_dh: Option<DhK>) -> (String, String) {
    let (p, k, dh, cipher, hash) = stratum(idx);
    let dh = only_dh.unwrap_or(dh);
    let base = pattern_names()[p];
    let nmsg = Proto::parse(&format!("Noise_{base}_25519_ChaChaPoly_SHA256")).unwrap().n_messages();
    let mut mods: Vec<u8> = vec![];
    match k {
        0 | 1 => {},
        2 => mods.push(rng.below(nmsg as u64 + 1) as u8),
        3 => {
            for n in 0..=nmsg as u8 {
                if rng.chance(1, 2) {
                    mods.push(n);
                }
            }
            if mods.is_empty() {
                mods.push(rng.below(nmsg as u64 + 1) as u8);
            }
            // modifier order is free in the name; shuffle sometimes
            if rng.chance(1, 3) && mods.len() > 1 {
                let a = rng.usize_below(mods.len());
                let b = rng.usize_below(mods.len());
                mods.swap(a, b);
            }
        },
        _ => mods = (0..=nmsg as u8).collect(),
    }
    let pad = rng.chance(1, 40);
    let mut modstr: Vec<String> = mods
        .iter()
        .map(|m| if pad { format!("psk{:03}", m) } else { format!("psk{m}") })
        .collect();
    let mk = |modstr: &Vec<String>| {
        format!("Noise_{}{}_{}_{}_{}", base, modstr.join("+"), dh.name(), cipher.name(), hash.name())
    };
    let mut name = mk(&modstr);
    // rare branch: protocol name exactly HASHLEN (or HASHLEN +/- 1) bytes long. For 32-byte hashes
    // this happens naturally; for 64-byte hashes zero-padded psk indices (accepted by snow's
    // parser, read as the number by the model) are used to reach 63 / 64 / 65.
    if !modstr.is_empty() && rng.chance(1, 6) {
        let hl = hash.hash_len();
        let want = hl - 1 + rng.usize_below(3);
        if name.len() < want && want - name.len() < 40 {
            let zeros = "0".repeat(want - name.len());
            let m0 = mods[0];
            modstr[0] = format!("psk{zeros}{m0}");
            name = mk(&modstr);
        }
    }
    let pskclass = ["none", "none", "single", "multi", "all"][k];
    let stratum = format!("{base}/{pskclass}/{}/{}/{}", dh.name(), cipher.name(), hash.name());
    (name, stratum)
}

pub fn gen_static(rng: &mut Rng, dh: DhK) -> (Vec<u8>, Vec<u8>) {
    loop {
        let mut k = rng.bytes(32);
        if dh == DhK::X25519 {
            // special private values now and then (clamping makes all of them valid)
            match rng.below(64) {
                0 => k = vec![0u8; 32],
                1 => k = vec![0xFF; 32],
                _ => {},
            }
        }
        if let Some(p) = dh.pubkey(&k) {
            return (k, p);
        }
    }
}

/// Static key pair from the library's own key generation, driven through the RNG seam.
pub fn gen_static_snow(rng: &mut Rng, name: &str, backend: Backend) -> Option<(Vec<u8>, Vec<u8>)> {
    let shared = crate::seam::RngShared::new(rng.next_u64(), RngMode::Stream);
    let name = name.to_string();
    // a panic in here is reported by the Keygen op of the run (C10), not as a harness failure
    let r = std::panic::catch_unwind(move || {
        let params: snow::params::NoiseParams = name.parse().ok()?;
        let resolver = crate::seam::SimResolver::new(backend, shared, None, None);
        let kp = snow::Builder::with_resolver(params, Box::new(resolver)).generate_keypair().ok()?;
        Some((kp.private, kp.public))
    });
    r.ok().flatten()
}

pub fn gen_prologue(rng: &mut Rng) -> Vec<u8> {
    if rng.chance(1, 80) {
        // longer than the 65535-byte message limit (a prologue has no such limit)
        let l = *rng.pick(&[65_535usize, 65_536, 70_001]);
        return rng.bytes(l);
    }
    let len = match rng.below(12) {
        0..=2 => 0,
        3 => 1,
        4 => rng.range(31, 33),
        5 => rng.range(63, 65),
        6 => rng.range(127, 129),
        7 => 4096,
        _ => rng.range(2, 200),
    };
    rng.bytes(len as usize)
}

pub fn pick_backend(rng: &mut Rng, mix: BackendMix) -> Backend {
    match mix {
        BackendMix::DefaultOnly => Backend::Default,
        BackendMix::Any => *rng.pick(&[Backend::Default, Backend::RingFirst, Backend::DefaultFirst]),
    }
}

/// Build a consistent two-party session configuration for `name`.
pub fn gen_session(rng: &mut Rng, name: &str, opts: &CfgOpts, seed_salt: u64) -> (NodeCfg, NodeCfg) {
    let proto = Proto::parse(name).expect("generated names parse");
    let (mut is, mut ip) = gen_static(rng, proto.dh);
    let (mut rs, mut rp) = gen_static(rng, proto.dh);
    if opts.snow_keygen > 0 && rng.chance(opts.snow_keygen as u64, 1000) {
        let b = pick_backend(rng, opts.backends);
        if let (Some(a), Some(c)) = (gen_static_snow(rng, name, b), gen_static_snow(rng, name, b)) {
            is = a.0;
            ip = a.1;
            rs = c.0;
            rp = c.1;
        }
    }
    if opts.same_statics > 0 && rng.chance(opts.same_statics as u64, 1000) {
        rs = is.clone();
        rp = ip.clone();
    }
    let prologue = gen_prologue(rng);
    let mut psks = vec![];
    for &m in &proto.psk_mods {
        // special PSK values now and then (a PSK has no invalid values: all-zero is WireGuard's
        // "no PSK configured" default for IKpsk2)
        let key = match rng.below(40) {
            0 => vec![0u8; 32],
            1 => vec![0xFF; 32],
            _ => rng.bytes(32),
        };
        psks.push(PskCfg { idx: m, key, at_boot: true });
    }
    let mk = |initiator: bool, rng: &mut Rng| {
        let (mys, peerp) = if initiator { (&is, &rp) } else { (&rs, &ip) };
        let mut mypsks = psks.clone();
        for p in mypsks.iter_mut() {
            if opts.late_psk > 0 && rng.chance(opts.late_psk as u64, 1000) {
                p.at_boot = false;
            }
        }
        if opts.surplus_psk > 0 && rng.chance(opts.surplus_psk as u64, 1000) {
            // one or two PSKs in slots the name does not mention (appended after the real ones)
            for _ in 0..rng.range(1, 2) {
                let idx = rng.below(10) as u8;
                if !proto.psk_mods.contains(&idx) && !mypsks.iter().any(|c| c.idx == idx) {
                    mypsks.push(PskCfg { idx, key: rng.bytes(32), at_boot: true });
                }
            }
        }
        NodeCfg {
            name: name.to_string(),
            initiator,
            s_priv: if proto.needs_local_static(initiator) { Some(mys.clone()) } else { None },
            rs_pub: if proto.needs_remote_static(initiator)
                || (opts.surplus_rs > 0 && proto.needs_local_static(!initiator) && rng.chance(opts.surplus_rs as u64, 1000))
            {
                Some(peerp.clone())
            } else {
                None
            },
            psks: mypsks,
            prologue: prologue.clone(),
            backend: pick_backend(rng, opts.backends),
            rng_seed: mix(rng.next_u64(), seed_salt),
            deny: None,
            evil_static_pub: false,
            build_order: rng.below(128) as u8,
            deny_at: 0,
        }
    };
    let mut a = mk(true, rng);
    let mut b = mk(false, rng);
    if opts.noncanonical_rs > 0 && proto.dh == DhK::X25519 && rng.chance(opts.noncanonical_rs as u64, 1000) {
        // p = 2^255 - 19, little endian: ed ff .. ff 7f ; p + k for k in 2..=18
        let k = rng.range(2, 18) as u8;
        let mut key = vec![0xFFu8; 32];
        key[0] = 0xED + k;
        key[31] = 0x7F;
        if a.rs_pub.is_some() && rng.chance(1, 2) {
            a.rs_pub = Some(key);
        } else if b.rs_pub.is_some() {
            b.rs_pub = Some(key);
        } else if a.rs_pub.is_some() {
            a.rs_pub = Some(key);
        }
    }
    if opts.evil_pub > 0 && proto.dh == DhK::P256 && rng.chance(opts.evil_pub as u64, 1000) {
        // only a static key that is transmitted (not pre-shared) can be announced falsely without
        // the configuration itself being inconsistent
        let cand: Vec<bool> = [true, false]
            .into_iter()
            .filter(|&ini| proto.needs_local_static(ini) && !proto.needs_remote_static(!ini))
            .collect();
        if !cand.is_empty() {
            let ini = cand[rng.usize_below(cand.len())];
            if ini {
                a.evil_static_pub = true;
                b.rs_pub = None;
            } else {
                b.evil_static_pub = true;
                a.rs_pub = None;
            }
        }
    }
    if opts.deny_any > 0 && rng.chance(opts.deny_any as u64, 1000) {
        let n = if rng.chance(1, 2) { &mut a } else { &mut b };
        n.deny = Some(*rng.pick(&[crate::seam::Prim::Dh, crate::seam::Prim::Hash, crate::seam::Prim::Cipher]));
        n.deny_at = rng.below(4) as u8;
    }
    if opts.deny_rng > 0 && rng.chance(opts.deny_rng as u64, 1000) {
        let n = if rng.chance(1, 2) { &mut a } else { &mut b };
        n.deny = Some(crate::seam::Prim::Rng);
    }
    (a, b)
}

pub fn gen_cfg(rng: &mut Rng, idx: u64, scenario: &str, opts: &CfgOpts) -> RunCfg {
    let (mut name, mut stratum) = gen_name(rng, idx, opts.only_dh);
    if let Some(n) = &opts.force_name {
        name = n.clone();
        let parts: Vec<&str> = n.split('_').collect();
        // the same stratum labels as gen_name uses
        let (base, class) = match Proto::parse(n) {
            Ok(p) => {
                let nm = p.psk_mods.len();
                (p.base.clone(), if nm == 0 { "none" } else if nm == 1 { "single" } else if nm == p.msgs.len() + 1 { "all" } else { "multi" })
            },
            Err(_) => (parts[1].to_string(), "unparsed"),
        };
        stratum = format!("{base}/{class}/{}/{}/{}", parts[2], parts[3], parts[4]);
    }
    let (mut a, mut b) = gen_session(rng, &name, opts, 1);
    if let Some(bk) = opts.force_backend {
        a.backend = bk;
        b.backend = bk;
    }
    let mut nodes = vec![a.clone(), b.clone()];
    for s in 1..opts.sessions {
        if opts.parallel_same_statics {
            // same static keys / psks / prologue, different randomness
            let mut c = a.clone();
            let mut d = b.clone();
            c.rng_seed = mix(a.rng_seed, 0xC0 + s as u64);
            d.rng_seed = mix(b.rng_seed, 0xD0 + s as u64);
            nodes.push(c);
            nodes.push(d);
        } else {
            let (c, d) = gen_session(rng, &name, opts, 2 + s as u64);
            nodes.push(c);
            nodes.push(d);
        }
    }
    RunCfg {
        scenario: scenario.to_string(),
        nodes,
        rng_mode: opts.rng_mode,
        record: opts.record,
        stratum,
        mismatch: false,
    }
}

/// Boundary-biased payload length. `max` is the largest payload that still fits 65535.
pub fn gen_plen(rng: &mut Rng, max: usize, big: bool) -> u32 {
    let v = match rng.below(40) {
        0..=5 => 0,
        6 => 1,
        7 => 15,
        8 => 16,
        9 => 17,
        10 => rng.range(31, 33),
        11 => rng.range(63, 65),
        12 => rng.range(127, 129),
        13 => 1024,
        14 if big => max as u64,
        15 if big => max.saturating_sub(1) as u64,
        16 if big => *rng.pick(&[16_383u64, 16_384, 16_385, 20_000, 32_768, 40_000]),
        26 if big => rng.range(2049, max as u64),
        17..=23 => rng.range(18, 200),
        24 => *rng.pick(&[255u64, 256, 257, 511, 512, 513, 2047, 2048, 2049]),
        25 => rng.range(4076, 4100),
        27 => rng.range(200, 2048),
        _ => rng.range(1, 64),
    };
    v.min(max as u64) as u32
}

/// Per-mille weights of the fault kinds a driver may inject.
#[derive(Clone, Debug, Default)]
pub struct Profile {
    pub hs_fail_write: u32,
    pub hs_fail_read: u32,
    pub hs_tamper: u32,
    pub hs_misuse: u32,
    pub early_convert: u32,
    pub bad_setpsk: u32,
    pub max_hs_faults: u32,
    pub retry_different_payload: bool,
    pub tr_steps: (u32, u32),
    pub tr_mutate: u32,
    pub tr_reorder: u32,
    pub tr_drop: u32,
    pub tr_dup: u32,
    pub tr_delay: u32,
    pub tr_garbage: u32,
    pub tr_hist: u32,
    pub tr_setrecv: u32,
    pub tr_setsend: u32,
    pub tr_rekey: u32,
    pub tr_rekey_sync: u32,
    pub tr_shortout: u32,
    pub tr_shortbuf: u32,
    pub tr_oversize: u32,
    pub tr_nonce_explicit: u32,
    pub tr_misuse: u32,
    pub stateless: u32,
    pub big_payloads: u32,
    pub wild_buffers: bool,
    pub epilogue: bool,
    pub query: u32,
}

impl Profile {
    /// Swarm testing: every run enables a random subset of the profile's fault kinds at a
    /// random overall rate; one run in eight is fault-free.
    pub fn swarm(&self, rng: &mut Rng) -> Profile {
        let mut p = self.clone();
        let rate = match rng.below(8) {
            0 => 0,
            1..=3 => 1,
            _ => 2,
        };
        let f = |rng: &mut Rng, w: &mut u32| {
            if rate == 0 || rng.chance(1, 3) {
                *w = 0;
            } else if rate == 1 {
                *w /= 2;
            }
        };
        f(rng, &mut p.hs_fail_write);
        f(rng, &mut p.hs_fail_read);
        f(rng, &mut p.hs_tamper);
        f(rng, &mut p.hs_misuse);
        f(rng, &mut p.early_convert);
        f(rng, &mut p.bad_setpsk);
        f(rng, &mut p.tr_mutate);
        f(rng, &mut p.tr_reorder);
        f(rng, &mut p.tr_drop);
        f(rng, &mut p.tr_dup);
        f(rng, &mut p.tr_delay);
        f(rng, &mut p.tr_garbage);
        f(rng, &mut p.tr_hist);
        f(rng, &mut p.tr_setrecv);
        f(rng, &mut p.tr_setsend);
        f(rng, &mut p.tr_rekey);
        f(rng, &mut p.tr_shortout);
        f(rng, &mut p.tr_shortbuf);
        f(rng, &mut p.tr_oversize);
        f(rng, &mut p.tr_nonce_explicit);
        f(rng, &mut p.tr_misuse);
        p
    }
}

macro_rules! step {
    ($s:expr, $op:expr) => {{
        let op = $op;
        $s.step(op);
    }};
}

pub struct Driver<'a> {
    pub w: &'a mut World,
    pub rng: &'a mut Rng,
    pub ops: Vec<Op>,
    pub hs_faults: u32,
}

const BOUNDARY_NONCES: [u64; 15] = [
    0,
    1,
    255,
    256,
    65_535,
    65_536,
    (1 << 24) - 1,
    1 << 24,
    0xFFFF_FFFF,
    0x1_0000_0000,
    1 << 63,
    u64::MAX - 3,
    u64::MAX - 2,
    u64::MAX - 1,
    u64::MAX,
];

impl<'a> Driver<'a> {
    pub fn new(w: &'a mut World, rng: &'a mut Rng) -> Self {
        Driver { w, rng, ops: vec![], hs_faults: 0 }
    }

    pub fn step(&mut self, op: Op) {
        let idx = self.ops.len();
        self.ops.push(op);
        self.w.apply(idx, &op);
    }

    /// A session in which at least one endpoint was built but cannot be followed by the model
    /// (irregular key lengths the builder let through): its calls are still made - writes,
    /// reads of whatever the peer produced, a conversion attempt - under the panic monitor.
    fn blind_exchange(&mut self, a: usize, b: usize) {
        let live = |w: &World, i: usize| matches!(w.nodes[i].st, St::Hs(_));
        if !(live(self.w, a) && live(self.w, b)) || (self.w.nodes[a].shadow.is_some() && self.w.nodes[b].shadow.is_some()) {
            return;
        }
        for round in 0..4u32 {
            let (wr, rd) = if round % 2 == 0 { (a, b) } else { (b, a) };
            let plen = *self.rng.pick(&[0u32, 5, 64]);
            step!(self, Op::Write { node: wr as u8, plen, pseed: round, buf: Buf::Ample, nonce: NonceSel::Auto });
            step!(self, Op::Read { node: rd as u8, src: Src::Next, mutation: Mutation::None, out: Buf::Ample, nonce: NonceSel::Auto });
            if self.rng.chance(1, 3) {
                step!(self, Op::Read { node: rd as u8, src: Src::Garbage { len: self.rng.below(120) as u32, seed: round }, mutation: Mutation::None, out: Buf::Ample, nonce: NonceSel::Auto });
            }
        }
        step!(self, Op::Query { node: a as u8 });
        step!(self, Op::Query { node: b as u8 });
    }

    fn hs_state(&self, i: usize) -> Option<(usize, bool, bool)> {
        let n = &self.w.nodes[i];
        if !matches!(n.st, St::Hs(_)) {
            return None;
        }
        n.shadow.as_ref().map(|s| (s.idx, s.my_turn(), s.finished()))
    }

    fn max_payload(&self, i: usize) -> usize {
        match &self.w.nodes[i].shadow {
            Some(s) if matches!(self.w.nodes[i].st, St::Hs(_)) => 65535usize.saturating_sub(s.overhead()),
            _ => 65535 - 16,
        }
    }

    fn gen_mutation(&mut self) -> Mutation {
        match self.rng.below(14) {
            10 => Mutation::SetField { field: self.rng.below(8) as u8, byte: *self.rng.pick(&[0u8, 0xFF, 1]) },
            11 => Mutation::ByteSet { field: self.rng.below(8) as u8, pos: self.rng.next_u64() as u32, byte: self.rng.below(256) as u8 },
            12 => Mutation::TruncLast { n: *self.rng.pick(&[1u8, 1, 2, 15, 16, 17]) },
            13 => Mutation::Flip { field: self.rng.below(8) as u8, pos: u32::MAX - self.rng.below(2) as u32, bit: self.rng.below(8) as u8 },
            0..=3 => Mutation::Flip {
                field: self.rng.below(8) as u8,
                pos: match self.rng.below(3) {
                    0 => 0,
                    1 => u32::MAX, // last byte after modulo? (len-1) when len | 2^32 - keep random
                    _ => self.rng.next_u64() as u32,
                },
                bit: self.rng.below(8) as u8,
            },
            4 => Mutation::TruncField { field: self.rng.below(8) as u8, delta: self.rng.range(0, 2) as i8 - 1 },
            5 => Mutation::TruncAbs { to: *self.rng.pick(&[0u32, 1, 15, 16, 17, 31, 32, 33, 47, 48]) },
            6 => Mutation::TruncField { field: 200, delta: 15 }, // drop last byte region: resolved modulo
            7 => Mutation::Extend { by: *self.rng.pick(&[1u32, 16, 17, 100]), fill: self.rng.below(256) as u8 },
            8 => Mutation::Extend { by: 66_000, fill: 0 },
            _ => Mutation::Multi { k: self.rng.range(1, 4) as u8, seed: self.rng.next_u64() as u32 },
        }
    }

    fn gen_short_buf(&mut self) -> Buf {
        match self.rng.below(8) {
            0 => Buf::Abs(0),
            1 => Buf::Delta(-1),
            2 => Buf::Delta(-(self.rng.range(1, 17) as i32)),
            3 | 4 | 5 => Buf::AtField { field: self.rng.below(6) as u8, delta: self.rng.range(0, 4) as i8 - 2 },
            6 => Buf::AtField { field: self.rng.below(6) as u8, delta: self.rng.range(0, 30) as i8 - 15 },
            _ => Buf::Abs(self.rng.below(100) as u32),
        }
    }

    fn gen_ok_buf(&mut self) -> Buf {
        match self.rng.below(8) {
            0 => Buf::Delta(16),
            1 => Buf::Abs(65535),
            2 => Buf::Abs(70_000),
            // exact fit (for a cleartext handshake payload this lies in snow's spare-tag window,
            // where either outcome is accepted)
            3 => Buf::Exact,
            4 => Buf::Delta(self.rng.range(1, 15) as i32),
            _ => Buf::Ample,
        }
    }

    /// Run the handshake of session `s` under profile `p`. Returns true if both sides finished.
    pub fn handshake(&mut self, s: usize, p: &Profile) -> bool {
        let (a, b) = (2 * s, 2 * s + 1);
        if p.query > 0 && self.rng.chance(1, 4) {
            let n = if self.rng.chance(1, 2) { a } else { b };
            step!(self, Op::Keygen { node: n as u8 });
        }
        // replacing an already supplied PSK through set_psk: on both sides (the session must then
        // run on the new key) or - in a mismatch configuration - on one side only
        let psk_idxs: Vec<u8> = self.w.cfg.nodes[a].psks.iter().filter(|c| c.at_boot).map(|c| c.idx).collect();
        if !psk_idxs.is_empty() {
            let idx = psk_idxs[self.rng.usize_below(psk_idxs.len())];
            if s == 0 && self.w.cfg.stratum.contains("psk-replace-one-side") {
                let n = if self.w.cfg.stratum.contains("psk-replace-one-side-a") { a } else { b };
                step!(self, Op::SetPsk { node: n as u8, idx: idx as u64, kind: PskKind::Wrong });
            } else if p.query > 0 && !self.w.cfg.mismatch && self.rng.chance(1, 12) {
                step!(self, Op::SetPsk { node: a as u8, idx: idx as u64, kind: PskKind::Wrong });
                step!(self, Op::SetPsk { node: b as u8, idx: idx as u64, kind: PskKind::Wrong });
            }
        }
        let mut guard = 0;
        let mut redeliveries = 0;
        loop {
            guard += 1;
            if guard > 60 {
                return false;
            }
            let (sa, sb) = match (self.hs_state(a), self.hs_state(b)) {
                (Some(x), Some(y)) => (x, y),
                _ => {
                    self.blind_exchange(a, b);
                    return false;
                },
            };
            if sa.2 && sb.2 {
                return true;
            }
            // a message in flight is delivered (again) before anybody writes; otherwise the party
            // whose turn it is - according to its own model - writes
            let pending = if !self.w.inbox[b].is_empty() && !sb.1 && !sb.2 {
                Some((a, b))
            } else if !self.w.inbox[a].is_empty() && !sa.1 && !sa.2 {
                Some((b, a))
            } else {
                None
            };
            let deliver_only = pending.is_some();
            let (wr, rd) = match pending {
                Some(x) => x,
                None => {
                    if sa.1 && !sa.2 {
                        (a, b)
                    } else if sb.1 && !sb.2 {
                        (b, a)
                    } else {
                        return false;
                    }
                },
            };
            if deliver_only {
                redeliveries += 1;
                if redeliveries > 6 {
                    return false;
                }
            }
            let can_fault = self.hs_faults < p.max_hs_faults;
            // late PSKs: supply configured PSKs that are still missing, at a random moment
            for n in [wr, rd] {
                let missing: Vec<u8> = {
                    let node = &self.w.nodes[n];
                    match &node.shadow {
                        Some(sh) => self.w.cfg.nodes[n]
                            .psks
                            .iter()
                            .filter(|c| !c.at_boot && sh.psks[c.idx as usize].is_none())
                            .map(|c| c.idx)
                            .collect(),
                        None => vec![],
                    }
                };
                for idx in missing {
                    // half of the time let the call that needs it fail first
                    if self.rng.chance(1, 2) {
                        step!(self, Op::SetPsk { node: n as u8, idx: idx as u64, kind: PskKind::Configured });
                    } else if self.rng.chance(1, 3) {
                        // a refused set_psk (wrong length) must leave the slot empty
                        let l = *self.rng.pick(&[0u32, 1, 31, 33, 64]);
                        step!(self, Op::SetPsk { node: n as u8, idx: idx as u64, kind: PskKind::BadLen(l) });
                    }
                }
            }
            if can_fault && p.bad_setpsk > 0 && self.rng.chance(p.bad_setpsk as u64, 1000) {
                let n = if self.rng.chance(1, 2) { wr } else { rd };
                let kind = if self.rng.chance(1, 2) {
                    PskKind::BadLen(*self.rng.pick(&[0u32, 1, 31, 33, 64, 200, 256, 4096, 65_536]))
                } else {
                    PskKind::Configured
                };
                let idx: u64 = if kind == PskKind::Configured {
                    // out-of-range slot (incl. values that do not fit a byte), or (valid call) a
                    // slot the pattern does not use
                    match self.rng.below(4) {
                        0 => self.rng.range(5, 9),
                        1 => self.rng.range(10, 30),
                        _ => *self.rng.pick(&[31u64, 32, 64, 255, 256, 257, 265, 65_536, 1 << 32, u64::MAX - 1, u64::MAX]),
                    }
                } else {
                    self.rng.below(12)
                };
                step!(self, Op::SetPsk { node: n as u8, idx, kind });
                self.hs_faults += 1;
            }
            if can_fault && p.hs_misuse > 0 && self.rng.chance(p.hs_misuse as u64, 1000) {
                self.hs_faults += 1;
                match self.rng.below(4) {
                    0 => {
                        // reader writes out of turn
                        let buf = self.gen_ok_buf();
                        step!(self, Op::Write { node: rd as u8, plen: self.rng.below(40) as u32, pseed: self.rng.next_u64() as u32, buf, nonce: NonceSel::Auto });
                    },
                    1 => {
                        // writer reads (an earlier message of the peer, its own, or garbage)
                        let src = match self.rng.below(3) {
                            0 => Src::Garbage { len: self.rng.below(200) as u32, seed: self.rng.next_u64() as u32 },
                            1 => Src::Hist { from: rd as u8, idx: self.rng.below(4) as u16 },
                            _ => Src::Hist { from: wr as u8, idx: self.rng.below(4) as u16 },
                        };
                        step!(self, Op::Read { node: wr as u8, src, mutation: Mutation::None, out: Buf::Ample, nonce: NonceSel::Auto });
                    },
                    2 => {
                        // oversize incoming message
                        step!(self, Op::Read { node: rd as u8, src: Src::Garbage { len: 65_536 + self.rng.below(10) as u32, seed: 1 }, mutation: Mutation::None, out: Buf::Ample, nonce: NonceSel::Auto });
                    },
                    _ => {
                        step!(self, Op::Query { node: wr as u8 });
                    },
                }
                continue;
            }
            if can_fault && p.early_convert > 0 && self.rng.chance(p.early_convert as u64, 1000) {
                let n = if self.rng.chance(1, 2) { wr } else { rd };
                step!(self, Op::Convert { node: n as u8, stateless: self.rng.chance(1, 2) });
                return false;
            }
            // ---- the write
            if !deliver_only {
            let max = self.max_payload(wr);
            let big = p.big_payloads > 0 && self.rng.chance(p.big_payloads as u64, 1000);
            let plen = gen_plen(self.rng, max, big);
            let pseed = self.rng.next_u64() as u32;
            if can_fault && p.hs_fail_write > 0 && self.rng.chance(p.hs_fail_write as u64, 1000) {
                let k = self.rng.range(1, 2);
                for _ in 0..k {
                    self.hs_faults += 1;
                    let (fplen, buf) = match self.rng.below(6) {
                        0 => ((max + 1 + self.rng.below(20) as usize) as u32, Buf::Abs(70_000)), // oversize payload, ample buffer
                        1 => (plen, Buf::Delta(self.rng.range(0, 15) as i32)), // spare-tag window
                        _ => (plen, self.gen_short_buf()),
                    };
                    let fseed = if p.retry_different_payload && self.rng.chance(1, 2) { self.rng.next_u64() as u32 } else { pseed };
                    step!(self, Op::Write { node: wr as u8, plen: fplen, pseed: fseed, buf, nonce: NonceSel::Auto });
                }
            }
            let buf = if p.wild_buffers { self.gen_ok_buf() } else { Buf::Ample };
            step!(self, Op::Write { node: wr as u8, plen, pseed, buf, nonce: NonceSel::Auto });
            if self.w.inbox[rd].is_empty() {
                // the write failed (missing PSK, DH failure, ...) - try to make progress next round
                let st = self.hs_state(wr);
                if st.map_or(true, |x| x.0 == if wr == a { sa.0 } else { sb.0 }) && guard > 40 {
                    return false;
                }
                continue;
            }
            }
            // ---- the delivery
            if can_fault && p.hs_fail_read > 0 && self.rng.chance(p.hs_fail_read as u64, 1000) {
                let k = self.rng.range(1, 2);
                for _ in 0..k {
                    self.hs_faults += 1;
                    match self.rng.below(8) {
                        0..=3 => {
                            let m = self.gen_mutation();
                            let out = if self.rng.chance(1, 2) { *self.rng.pick(&[Buf::Exact, Buf::Delta(1), Buf::Delta(8), Buf::Delta(15), Buf::Delta(16), Buf::Delta(40)]) } else { Buf::Ample };
                            step!(self, Op::Read { node: rd as u8, src: Src::Pick { k: 0, consume: false }, mutation: m, out, nonce: NonceSel::Auto });
                        },
                        4 => {
                            // genuine message, payload buffer too small
                            let out = match self.rng.below(3) {
                                0 => Buf::Abs(0),
                                1 => Buf::Delta(-1),
                                _ => Buf::Delta(-(self.rng.range(1, 20) as i32)),
                            };
                            step!(self, Op::Read { node: rd as u8, src: Src::Pick { k: 0, consume: false }, mutation: Mutation::None, out, nonce: NonceSel::Auto });
                        },
                        5 => {
                            let from = self.rng.below(self.w.nodes.len() as u64) as u8;
                            step!(self, Op::Read { node: rd as u8, src: Src::Hist { from, idx: self.rng.below(4) as u16 }, mutation: Mutation::None, out: Buf::Ample, nonce: NonceSel::Auto });
                        },
                        6 => {
                            let len = *self.rng.pick(&[0u32, 1, 31, 32, 33, 48, 64, 65, 81, 96, 200, 65_535, 65_536]);
                            step!(self, Op::Read { node: rd as u8, src: Src::Garbage { len, seed: self.rng.next_u64() as u32 }, mutation: Mutation::None, out: Buf::Ample, nonce: NonceSel::Auto });
                        },
                        _ => {
                            let m = self.gen_mutation();
                            let out = self.gen_short_buf();
                            step!(self, Op::Read { node: rd as u8, src: Src::Pick { k: 0, consume: false }, mutation: m, out, nonce: NonceSel::Auto });
                        },
                    }
                }
            }
            if can_fault && p.hs_tamper > 0 && self.rng.chance(p.hs_tamper as u64, 1000) {
                self.hs_faults += 1;
                // the altered message replaces the genuine one; afterwards everybody is honest
                if self.rng.chance(1, 4) && self.w.nodes.len() > 2 {
                    // substitution: same-index message of the parallel session / earlier message
                    let other = if self.rng.chance(2, 3) { (wr + 2) % self.w.nodes.len() } else { wr };
                    let widx = if other == wr { self.rng.below(4) as u16 } else { (sa.0.min(sb.0) / 2) as u16 };
                    step!(self, Op::Drop { node: rd as u8, k: 0 });
                    step!(self, Op::Read { node: rd as u8, src: Src::Hist { from: other as u8, idx: widx }, mutation: Mutation::None, out: Buf::Ample, nonce: NonceSel::Auto });
                } else {
                    let m = self.gen_mutation();
                    step!(self, Op::Read { node: rd as u8, src: Src::Pick { k: 0, consume: true }, mutation: m, out: Buf::Ample, nonce: NonceSel::Auto });
                }
                // if the reader rejected, the genuine message is gone: the session is stuck, which
                // is a legitimate outcome
                let st = self.hs_state(rd);
                if st.map_or(true, |x| x.0 == if rd == a { sa.0 } else { sb.0 }) {
                    return false;
                }
                continue;
            }
            let out = if p.wild_buffers && self.rng.chance(1, 2) { *self.rng.pick(&[Buf::Exact, Buf::Delta(1), Buf::Delta(8), Buf::Delta(15), Buf::Delta(16)]) } else { Buf::Ample };
            // the genuine message stays in flight until it has been delivered successfully
            step!(self, Op::Read { node: rd as u8, src: Src::Pick { k: 0, consume: false }, mutation: Mutation::None, out, nonce: NonceSel::Auto });
            if p.query > 0 && self.rng.chance(p.query as u64, 1000) {
                step!(self, Op::Query { node: rd as u8 });
            }
        }
    }

    pub fn convert(&mut self, s: usize, p: &Profile) {
        for n in [2 * s, 2 * s + 1] {
            let stateless = self.rng.chance(p.stateless as u64, 1000);
            step!(self, Op::Convert { node: n as u8, stateless });
        }
    }

    fn is_stateless(&self, i: usize) -> bool {
        matches!(self.w.nodes[i].st, St::Sl(_))
    }
    fn in_transport(&self, i: usize) -> bool {
        matches!(self.w.nodes[i].st, St::Sl(_) | St::Tr(_))
    }

    fn gen_nonce(&mut self) -> u64 {
        if self.rng.chance(2, 3) {
            *self.rng.pick(&BOUNDARY_NONCES)
        } else {
            self.rng.next_u64()
        }
    }

    /// Transport phase of session `s`.
    pub fn transport(&mut self, s: usize, p: &Profile) {
        let (a, b) = (2 * s, 2 * s + 1);
        if !self.in_transport(a) || !self.in_transport(b) {
            return;
        }
        let oneway = self.w.nodes[a].trm.as_ref().map_or(false, |t| t.oneway);
        let steps = self.rng.range(p.tr_steps.0 as u64, p.tr_steps.1 as u64);
        let total_fault: u32 = p.tr_mutate + p.tr_reorder + p.tr_drop + p.tr_dup + p.tr_delay + p.tr_garbage + p.tr_hist + p.tr_setrecv + p.tr_setsend + p.tr_rekey + p.tr_rekey_sync + p.tr_shortout + p.tr_shortbuf + p.tr_oversize + p.tr_nonce_explicit + p.tr_misuse;
        for _ in 0..steps {
            let snd = if oneway || self.rng.chance(1, 2) { a } else { b };
            let rcv = snd ^ 1;
            let roll = self.rng.below(1000) as u32;
            if roll < total_fault {
                self.tr_fault(snd, rcv, p, roll);
                continue;
            }
            // ordinary traffic: write or deliver
            let qlen = self.w.inbox[rcv].len();
            if qlen == 0 || (qlen < 6 && self.rng.chance(1, 2)) {
                let big = p.big_payloads > 0 && self.rng.chance(p.big_payloads as u64, 1000);
                let plen = gen_plen(self.rng, 65535 - 16, big);
                let buf = if p.wild_buffers { self.gen_ok_buf() } else { Buf::Ample };
                step!(self, Op::Write { node: snd as u8, plen, pseed: self.rng.next_u64() as u32, buf, nonce: NonceSel::Auto });
            } else if self.is_stateless(rcv) && self.rng.chance(1, 2) {
                // stateless receivers may take messages in any order
                let k = self.rng.below(qlen as u64) as u8;
                let out = if p.wild_buffers && self.rng.chance(1, 2) { *self.rng.pick(&[Buf::Exact, Buf::Delta(1), Buf::Delta(15), Buf::Delta(16)]) } else { Buf::Ample };
                step!(self, Op::Read { node: rcv as u8, src: Src::Pick { k, consume: true }, mutation: Mutation::None, out, nonce: NonceSel::Auto });
            } else {
                let out = if p.wild_buffers && self.rng.chance(1, 2) { *self.rng.pick(&[Buf::Exact, Buf::Delta(1), Buf::Delta(8), Buf::Delta(15), Buf::Delta(16)]) } else { Buf::Ample };
                step!(self, Op::Read { node: rcv as u8, src: Src::Next, mutation: Mutation::None, out, nonce: NonceSel::Auto });
            }
            if p.query > 0 && self.rng.chance(p.query as u64, 1000) {
                step!(self, Op::Query { node: rcv as u8 });
            }
        }
        if p.epilogue {
            self.epilogue(s);
        }
    }

    fn tr_fault(&mut self, snd: usize, rcv: usize, p: &Profile, roll: u32) {
        let mut acc = 0;
        macro_rules! hit {
            ($w:expr) => {{
                acc += $w;
                roll < acc
            }};
        }
        let r32 = |r: &mut Rng| r.next_u64() as u32;
        if hit!(p.tr_mutate) {
            let m = self.gen_mutation();
            let consume = self.rng.chance(1, 4);
            let out = if self.rng.chance(1, 3) { *self.rng.pick(&[Buf::Exact, Buf::Delta(1), Buf::Delta(8), Buf::Delta(15), Buf::Delta(16), Buf::Delta(40)]) } else { Buf::Ample };
            step!(self, Op::Read { node: rcv as u8, src: Src::Pick { k: self.rng.below(3) as u8, consume }, mutation: m, out, nonce: NonceSel::Auto });
        } else if hit!(p.tr_reorder) {
            let k = self.rng.range(1, 4) as u8;
            step!(self, Op::Read { node: rcv as u8, src: Src::Pick { k, consume: self.rng.chance(1, 2) }, mutation: Mutation::None, out: Buf::Ample, nonce: NonceSel::Auto });
        } else if hit!(p.tr_drop) {
            step!(self, Op::Drop { node: rcv as u8, k: self.rng.below(3) as u8 });
        } else if hit!(p.tr_dup) {
            step!(self, Op::Dup { node: rcv as u8, k: self.rng.below(3) as u8 });
        } else if hit!(p.tr_delay) {
            step!(self, Op::Delay { node: rcv as u8, k: self.rng.below(3) as u8 });
        } else if hit!(p.tr_garbage) {
            let len = *self.rng.pick(&[0u32, 1, 15, 16, 17, 32, 100, 65_535, 65_536, 66_000]);
            step!(self, Op::Read { node: rcv as u8, src: Src::Garbage { len, seed: r32(self.rng) }, mutation: Mutation::None, out: Buf::Ample, nonce: NonceSel::Auto });
        } else if hit!(p.tr_hist) {
            // reflection, replay of an older message, cross-session, cross-direction, handshake msg
            let from = match self.rng.below(4) {
                0 => rcv,
                1 => snd,
                _ => self.rng.usize_below(self.w.nodes.len()),
            };
            let nw = self.w.nodes[from].written.len().max(1);
            let idx = self.rng.below(nw as u64) as u16;
            let nonce = if self.rng.chance(1, 2) { NonceSel::Auto } else { NonceSel::At(self.gen_nonce()) };
            step!(self, Op::Read { node: rcv as u8, src: Src::Hist { from: from as u8, idx }, mutation: Mutation::None, out: Buf::Ample, nonce });
        } else if hit!(p.tr_setrecv) {
            let v = match self.rng.below(4) {
                0 => self.gen_nonce(),
                // in-range values: around what the peer has sent so far
                _ => self.rng.below(self.w.nodes[snd].written.len() as u64 + 2),
            };
            // now and then on the party that is (mostly) sending: its own receive direction
            let target = if self.rng.chance(1, 4) { snd } else { rcv };
            step!(self, Op::SetRecvNonce { node: target as u8, v });
        } else if hit!(p.tr_setsend) {
            let v = if self.rng.chance(1, 2) { u64::MAX - self.rng.below(4) } else { self.gen_nonce() };
            step!(self, Op::SetSendNonce { node: snd as u8, v });
            if self.rng.chance(1, 2) {
                // keep the receiver in step so that traffic continues near the boundary
                step!(self, Op::SetRecvNonce { node: rcv as u8, v });
            }
        } else if hit!(p.tr_rekey) {
            let which = match self.rng.below(7) {
                0 | 1 => RekeyKind::Outgoing,
                2 | 3 => RekeyKind::Incoming,
                4 => RekeyKind::ManualI(self.rng.below(8) as u8),
                6 => RekeyKind::ManualNone,
                _ => {
                    if self.rng.chance(1, 3) {
                        RekeyKind::ManualBoth(self.rng.below(8) as u8)
                    } else {
                        RekeyKind::ManualR(self.rng.below(8) as u8)
                    }
                },
            };
            let n = if self.rng.chance(1, 2) { snd } else { rcv };
            step!(self, Op::Rekey { node: n as u8, which });
        } else if hit!(p.tr_rekey_sync) {
            // both sides rekey the same direction at a message boundary: first drain that
            // direction's in-flight messages
            let mut guard = 0;
            while !self.w.inbox[rcv].is_empty() && guard < 20 {
                guard += 1;
                step!(self, Op::Read { node: rcv as u8, src: Src::Next, mutation: Mutation::None, out: Buf::Ample, nonce: NonceSel::Auto });
            }
            if self.rng.chance(1, 3) {
                let id = self.rng.below(8) as u8;
                let which = if self.rng.chance(1, 4) {
                    RekeyKind::ManualBoth(id)
                } else if self.w.cfg.nodes[snd].initiator {
                    RekeyKind::ManualI(id)
                } else {
                    RekeyKind::ManualR(id)
                };
                step!(self, Op::Rekey { node: snd as u8, which });
                step!(self, Op::Rekey { node: rcv as u8, which });
            } else {
                step!(self, Op::Rekey { node: snd as u8, which: RekeyKind::Outgoing });
                step!(self, Op::Rekey { node: rcv as u8, which: RekeyKind::Incoming });
            }
        } else if hit!(p.tr_shortout) {
            let out = match self.rng.below(3) {
                0 => Buf::Abs(0),
                1 => Buf::Delta(-1),
                _ => Buf::Delta(-(self.rng.range(1, 20) as i32)),
            };
            step!(self, Op::Read { node: rcv as u8, src: Src::Pick { k: 0, consume: false }, mutation: Mutation::None, out, nonce: NonceSel::Auto });
        } else if hit!(p.tr_shortbuf) {
            let buf = self.gen_short_buf();
            step!(self, Op::Write { node: snd as u8, plen: self.rng.below(100) as u32, pseed: r32(self.rng), buf, nonce: NonceSel::Auto });
        } else if hit!(p.tr_oversize) {
            let plen = 65_535 - 16 + 1 + self.rng.below(30) as u32;
            step!(self, Op::Write { node: snd as u8, plen, pseed: r32(self.rng), buf: Buf::Abs(70_000), nonce: NonceSel::Auto });
        } else if hit!(p.tr_nonce_explicit) {
            let v = self.gen_nonce();
            if self.rng.chance(1, 2) {
                step!(self, Op::Write { node: snd as u8, plen: self.rng.below(64) as u32, pseed: r32(self.rng), buf: Buf::Ample, nonce: NonceSel::At(v) });
                if self.rng.chance(3, 4) && !self.w.inbox[rcv].is_empty() {
                    // read back the newest message under its own nonce (Auto) or a wrong one
                    let k = (self.w.inbox[rcv].len() - 1) as u8;
                    let nonce = if self.rng.chance(3, 4) { NonceSel::Auto } else { NonceSel::At(self.gen_nonce()) };
                    let out = if p.wild_buffers && self.rng.chance(1, 2) { *self.rng.pick(&[Buf::Exact, Buf::Delta(1), Buf::Delta(15), Buf::Delta(16)]) } else { Buf::Ample };
                    step!(self, Op::Read { node: rcv as u8, src: Src::Pick { k, consume: self.rng.chance(1, 2) }, mutation: Mutation::None, out, nonce });
                }
            } else {
                let k = self.rng.below(4) as u8;
                step!(self, Op::Read { node: rcv as u8, src: Src::Pick { k, consume: false }, mutation: Mutation::None, out: Buf::Ample, nonce: NonceSel::At(v) });
            }
        } else if hit!(p.tr_misuse) {
            // wrong-direction calls (matter for one-way patterns), queries
            match self.rng.below(3) {
                0 => step!(self, Op::Write { node: rcv as u8, plen: 3, pseed: 1, buf: Buf::Ample, nonce: NonceSel::Auto }),
                1 => {
                    // the sender reads: something the receiver wrote (if anything), its own
                    // message (reflection) or garbage - what a one-way initiator must refuse
                    let src = match self.rng.below(3) {
                        0 => {
                            let nw = self.w.nodes[rcv].written.len().max(1);
                            Src::Hist { from: rcv as u8, idx: self.rng.below(nw as u64) as u16 }
                        },
                        1 => {
                            let nw = self.w.nodes[snd].written.len().max(1);
                            Src::Hist { from: snd as u8, idx: self.rng.below(nw as u64) as u16 }
                        },
                        _ => Src::Garbage { len: *self.rng.pick(&[0u32, 15, 16, 17, 48, 100]), seed: self.rng.next_u64() as u32 },
                    };
                    step!(self, Op::Read { node: snd as u8, src, mutation: Mutation::None, out: Buf::Ample, nonce: NonceSel::Auto })
                },
                _ => step!(self, Op::Query { node: snd as u8 }),
            }
        }
    }

    /// Fault-free epilogue: faults have stopped; the next in-order genuine message of each
    /// direction must be accepted, followed by fresh in-order traffic (bounded liveness).
    pub fn epilogue(&mut self, s: usize) {
        step!(self, Op::Epilogue);
        let (a, b) = (2 * s, 2 * s + 1);
        for (snd, rcv) in [(a, b), (b, a)] {
            if !self.in_transport(snd) || !self.in_transport(rcv) {
                continue;
            }
            // drop whatever is still in flight, then present the genuine message carrying the
            // receiver's current nonce if the sender ever wrote one
            while !self.w.inbox[rcv].is_empty() {
                step!(self, Op::Drop { node: rcv as u8, k: 0 });
            }
            if !self.is_stateless(rcv) {
                let want = self.w.nodes[rcv].trm.as_ref().map(|t| t.nonces[t.recv_dir()]);
                if let Some(want) = want {
                    let pos = self.w.nodes[snd].written.iter().rposition(|&h| {
                        matches!(self.w.history[h].phase, crate::world::Phase::Tr { nonce } if nonce == want)
                    });
                    if let Some(pos) = pos {
                        step!(self, Op::Read { node: rcv as u8, src: Src::Hist { from: snd as u8, idx: pos as u16 }, mutation: Mutation::None, out: Buf::Ample, nonce: NonceSel::Auto });
                    }
                }
            }
            // explicit resynchronisation (the lossy-transport use of set_receiving_nonce): jump
            // back to an earlier message of the sender and deliver exactly that one
            if !self.is_stateless(rcv) && self.rng.chance(1, 2) {
                let cands: Vec<(usize, u64)> = self.w.nodes[snd]
                    .written
                    .iter()
                    .enumerate()
                    .filter_map(|(pos, &h)| match self.w.history[h].phase {
                        crate::world::Phase::Tr { nonce } => Some((pos, nonce)),
                        _ => None,
                    })
                    .collect();
                if !cands.is_empty() {
                    let (pos, nonce) = cands[self.rng.usize_below(cands.len())];
                    step!(self, Op::SetRecvNonce { node: rcv as u8, v: nonce });
                    step!(self, Op::Read { node: rcv as u8, src: Src::Hist { from: snd as u8, idx: pos as u16 }, mutation: Mutation::None, out: Buf::Ample, nonce: NonceSel::Auto });
                    // and forward again to where the sender is
                    let sn = self.w.nodes[snd].trm.as_ref().map(|t| t.nonces[t.send_dir()]);
                    if let Some(sn) = sn {
                        if !self.is_stateless(snd) {
                            step!(self, Op::SetRecvNonce { node: rcv as u8, v: sn });
                        }
                    }
                }
            }
            for _ in 0..2 {
                step!(self, Op::Write { node: snd as u8, plen: self.rng.below(50) as u32, pseed: self.rng.next_u64() as u32, buf: Buf::Ample, nonce: NonceSel::Auto });
                if !self.w.inbox[rcv].is_empty() {
                    step!(self, Op::Read { node: rcv as u8, src: Src::Next, mutation: Mutation::None, out: Buf::Ample, nonce: NonceSel::Auto });
                }
            }
        }
    }
}
