//! Seams the simulator owns: the random source, the crypto resolver (backend choice, denial of a
//! primitive, recording pass-through cipher). Everything goes through `Builder::with_resolver`.

use crate::prng::{hash128, mix, Rng};
use serde::{Deserialize, Serialize};
use snow::{
    params::{CipherChoice, DHChoice, HashChoice},
    resolvers::{CryptoResolver, DefaultResolver, FallbackResolver, RingResolver},
    types::{Cipher, Dh, Hash, Random},
};
use std::sync::{Arc, Mutex};

#[derive(Clone, Copy, PartialEq, Eq, Debug, Serialize, Deserialize, Hash, PartialOrd, Ord)]
pub enum Backend {
    /// DefaultResolver (RustCrypto)
    Default,
    /// FallbackResolver(Ring, Default): ring where it has the primitive
    RingFirst,
    /// FallbackResolver(Default, Ring): default wherever it has the primitive
    DefaultFirst,
}

#[derive(Clone, Copy, PartialEq, Eq, Debug, Serialize, Deserialize, Hash)]
pub enum Prim {
    Rng,
    Dh,
    Hash,
    Cipher,
}

#[derive(Clone, Copy, PartialEq, Eq, Debug, Serialize, Deserialize)]
pub enum RngMode {
    /// one stream per node; every draw advances it
    Stream,
    /// bytes are a function of (node seed, context set by the harness), so a retried call
    /// redraws the same bytes
    PerCall,
}

/// Shared log of what one node's random source handed out.
#[derive(Default)]
pub struct RngLog {
    /// id of the API call in progress (set by the harness before each call)
    pub call_id: u64,
    /// (call_id, bytes) for every fill
    pub draws: Vec<(u64, Vec<u8>)>,
    pub total_bytes: u64,
}

pub struct RngShared {
    pub log: Mutex<RngLog>,
    pub state: Mutex<Rng>,
    pub seed: u64,
    pub mode: RngMode,
    /// fault: the next fill yields an unusable value (all zero bytes - not a valid P-256 scalar)
    pub zero_next: std::sync::atomic::AtomicBool,
}

impl RngShared {
    pub fn new(seed: u64, mode: RngMode) -> Arc<Self> {
        Arc::new(RngShared {
            log: Mutex::new(RngLog::default()),
            state: Mutex::new(Rng::new(mix(seed, 0x5EED_0001))),
            seed,
            mode,
            zero_next: std::sync::atomic::AtomicBool::new(false),
        })
    }
    /// Called by the harness before each API call.
    pub fn begin_call(&self, call_id: u64, context: u64) {
        let mut l = self.log.lock().unwrap();
        l.call_id = call_id;
        l.draws.clear();
        if self.mode == RngMode::PerCall {
            *self.state.lock().unwrap() = Rng::new(mix(mix(self.seed, 0x5EED_0002), context));
        }
    }
    /// Bytes drawn since `begin_call`.
    pub fn drawn(&self) -> Vec<Vec<u8>> {
        self.log.lock().unwrap().draws.iter().map(|d| d.1.clone()).collect()
    }
}

pub struct SimRng(pub Arc<RngShared>);

impl rand_core::RngCore for SimRng {
    fn next_u32(&mut self) -> u32 {
        rand_core::impls::next_u32_via_fill(self)
    }
    fn next_u64(&mut self) -> u64 {
        rand_core::impls::next_u64_via_fill(self)
    }
    fn fill_bytes(&mut self, dest: &mut [u8]) {
        if self.0.zero_next.swap(false, std::sync::atomic::Ordering::Relaxed) {
            dest.fill(0);
        } else {
            self.0.state.lock().unwrap().fill(dest);
        }
        let mut l = self.0.log.lock().unwrap();
        let id = l.call_id;
        l.total_bytes += dest.len() as u64;
        l.draws.push((id, dest.to_vec()));
    }
    fn try_fill_bytes(&mut self, dest: &mut [u8]) -> Result<(), rand_core::Error> {
        self.fill_bytes(dest);
        Ok(())
    }
}
impl rand_core::CryptoRng for SimRng {}
impl Random for SimRng {}

#[derive(Clone, Copy, PartialEq, Eq, Debug)]
pub enum CipherEvKind {
    Encrypt,
    Decrypt,
    /// the encryption a rekey performs
    RekeyEncrypt,
}

#[derive(Clone, Debug)]
pub struct CipherEv {
    pub node: u8,
    pub call_id: u64,
    pub kind: CipherEvKind,
    pub key: [u8; 32],
    pub key_set: bool,
    pub nonce: u64,
    pub ad: (u64, u64),
    pub data: (u64, u64),
    pub data_len: usize,
}

#[derive(Default)]
pub struct CipherLog {
    pub call_id: u64,
    pub in_rekey: bool,
    pub events: Vec<CipherEv>,
}

pub type SharedCipherLog = Arc<Mutex<CipherLog>>;

/// Recording pass-through around a real `Cipher`.
pub struct RecCipher {
    inner: Box<dyn Cipher>,
    key: [u8; 32],
    key_set: bool,
    node: u8,
    log: SharedCipherLog,
}

impl RecCipher {
    fn push(&self, kind: CipherEvKind, nonce: u64, ad: &[u8], data: &[u8]) {
        let mut l = self.log.lock().unwrap();
        let call_id = l.call_id;
        l.events.push(CipherEv {
            node: self.node,
            call_id,
            kind,
            key: self.key,
            key_set: self.key_set,
            nonce,
            ad: hash128(ad),
            data: hash128(data),
            data_len: data.len(),
        });
    }
}

impl Cipher for RecCipher {
    fn name(&self) -> &'static str {
        self.inner.name()
    }
    fn set(&mut self, key: &[u8; 32]) {
        self.key = *key;
        self.key_set = true;
        self.inner.set(key);
    }
    fn encrypt(&self, nonce: u64, authtext: &[u8], plaintext: &[u8], out: &mut [u8]) -> usize {
        self.push(CipherEvKind::Encrypt, nonce, authtext, plaintext);
        self.inner.encrypt(nonce, authtext, plaintext, out)
    }
    fn decrypt(
        &self,
        nonce: u64,
        authtext: &[u8],
        ciphertext: &[u8],
        out: &mut [u8],
    ) -> Result<usize, snow::Error> {
        self.push(CipherEvKind::Decrypt, nonce, authtext, ciphertext);
        self.inner.decrypt(nonce, authtext, ciphertext, out)
    }
    fn rekey(&mut self) {
        // what the spec's REKEY would yield under the current key, computed through the real
        // cipher (recorded as the rekey's own encryption), then the backend's rekey itself runs
        let mut ct = [0u8; 48];
        self.push(CipherEvKind::RekeyEncrypt, u64::MAX, &[], &[0u8; 32]);
        self.inner.encrypt(u64::MAX, &[], &[0u8; 32], &mut ct);
        self.inner.rekey();
        self.key.copy_from_slice(&ct[..32]);
    }
}

/// The resolver every simulated node is built with.
pub struct SimResolver {
    inner: Box<dyn CryptoResolver + Send>,
    rng: Arc<RngShared>,
    record: Option<(u8, SharedCipherLog)>,
    deny: Option<Prim>,
    /// byzantine peer: the first Dh object handed out (the static key of Builder::build) reports
    /// a public key that is not a valid curve point
    evil_static_pub: bool,
    /// 0 = deny every request of the denied kind; k = only the k-th
    deny_at: u8,
    calls: [std::sync::atomic::AtomicUsize; 4],
}

/// A Dh that behaves normally except that pubkey() is corrupted in its last byte.
pub struct EvilDh {
    inner: Box<dyn Dh>,
    fake: Vec<u8>,
    /// true once a key was installed through set() (the static key); generated keys stay honest
    use_fake: bool,
}

pub fn corrupt_pub(p: &[u8]) -> Vec<u8> {
    let mut f = p.to_vec();
    if let Some(l) = f.last_mut() {
        *l ^= 1;
    }
    f
}

impl Dh for EvilDh {
    fn name(&self) -> &'static str {
        self.inner.name()
    }
    fn pub_len(&self) -> usize {
        self.inner.pub_len()
    }
    fn priv_len(&self) -> usize {
        self.inner.priv_len()
    }
    fn set(&mut self, privkey: &[u8]) {
        self.inner.set(privkey);
        self.fake = corrupt_pub(self.inner.pubkey());
        self.use_fake = true;
    }
    fn generate(&mut self, rng: &mut dyn Random) {
        self.inner.generate(rng);
        self.use_fake = false;
    }
    fn pubkey(&self) -> &[u8] {
        if self.use_fake {
            &self.fake
        } else {
            self.inner.pubkey()
        }
    }
    fn privkey(&self) -> &[u8] {
        self.inner.privkey()
    }
    fn dh(&self, pubkey: &[u8], out: &mut [u8]) -> Result<(), snow::Error> {
        self.inner.dh(pubkey, out)
    }
    fn dh_len(&self) -> usize {
        self.inner.dh_len()
    }
}

pub fn backend_resolver(b: Backend) -> Box<dyn CryptoResolver + Send> {
    match b {
        Backend::Default => Box::new(DefaultResolver),
        Backend::RingFirst => {
            Box::new(FallbackResolver::new(Box::new(RingResolver), Box::new(DefaultResolver)))
        },
        Backend::DefaultFirst => {
            Box::new(FallbackResolver::new(Box::new(DefaultResolver), Box::new(RingResolver)))
        },
    }
}

impl SimResolver {
    pub fn new(
        backend: Backend,
        rng: Arc<RngShared>,
        record: Option<(u8, SharedCipherLog)>,
        deny: Option<Prim>,
    ) -> Self {
        SimResolver { inner: backend_resolver(backend), rng, record, deny, evil_static_pub: false, deny_at: 0, calls: Default::default() }
    }
    pub fn with_evil_static_pub(mut self, evil: bool) -> Self {
        self.evil_static_pub = evil;
        self
    }
    pub fn with_deny_at(mut self, k: u8) -> Self {
        self.deny_at = k;
        self
    }
    /// is this request for primitive `p` refused?
    fn denied(&self, p: Prim) -> bool {
        let slot = match p {
            Prim::Rng => 0,
            Prim::Dh => 1,
            Prim::Hash => 2,
            Prim::Cipher => 3,
        };
        let nth = self.calls[slot].fetch_add(1, std::sync::atomic::Ordering::Relaxed) + 1;
        self.deny == Some(p) && (self.deny_at == 0 || self.deny_at as usize == nth)
    }
}

impl CryptoResolver for SimResolver {
    fn resolve_rng(&self) -> Option<Box<dyn Random>> {
        if self.denied(Prim::Rng) {
            return None;
        }
        Some(Box::new(SimRng(self.rng.clone())))
    }
    fn resolve_dh(&self, choice: &DHChoice) -> Option<Box<dyn Dh>> {
        if self.denied(Prim::Dh) {
            return None;
        }
        let d = self.inner.resolve_dh(choice)?;
        if self.evil_static_pub {
            // whichever object later receives the static key through set() announces a corrupted
            // public key; objects that only ever generate() (ephemerals) behave honestly
            return Some(Box::new(EvilDh { inner: d, fake: vec![], use_fake: false }));
        }
        Some(d)
    }
    fn resolve_hash(&self, choice: &HashChoice) -> Option<Box<dyn Hash>> {
        if self.denied(Prim::Hash) {
            return None;
        }
        self.inner.resolve_hash(choice)
    }
    fn resolve_cipher(&self, choice: &CipherChoice) -> Option<Box<dyn Cipher>> {
        if self.denied(Prim::Cipher) {
            return None;
        }
        let c = self.inner.resolve_cipher(choice)?;
        match &self.record {
            Some((node, log)) => Some(Box::new(RecCipher {
                inner: c,
                key: [0u8; 32],
                key_set: false,
                node: *node,
                log: log.clone(),
            })),
            None => Some(c),
        }
    }
}
