use snow::Builder;

// A long-lived session that ratchets its keys regularly (e.g. every N messages / every minute).
#[test]
fn three_hundred_synchronised_rekeys() {
    let name = "Noise_NN_25519_ChaChaPoly_SHA256";
    let mut i = Builder::new(name.parse().unwrap()).build_initiator().unwrap();
    let mut r = Builder::new(name.parse().unwrap()).build_responder().unwrap();
    let (mut m, mut p) = ([0u8; 256], [0u8; 256]);
    let n = i.write_message(&[], &mut m).unwrap();
    r.read_message(&m[..n], &mut p).unwrap();
    let n = r.write_message(&[], &mut m).unwrap();
    i.read_message(&m[..n], &mut p).unwrap();
    let (mut i, mut r) = (i.into_transport_mode().unwrap(), r.into_transport_mode().unwrap());
    for k in 0..300u32 {
        i.rekey_outgoing();
        r.rekey_incoming();
        let n = i.write_message(&k.to_le_bytes(), &mut m).unwrap();
        let l = r.read_message(&m[..n], &mut p).unwrap();
        assert_eq!(&p[..l], &k.to_le_bytes());
    }
}
