// C15: a rekey call changes only the chosen direction's key. rekey_manually(None, None) chooses no
// direction, so traffic must keep flowing (stateful and stateless).
use snow::Builder;

fn pair() -> (snow::HandshakeState, snow::HandshakeState) {
    let name = "Noise_NN_25519_ChaChaPoly_SHA256";
    let mut i = Builder::new(name.parse().unwrap()).build_initiator().unwrap();
    let mut r = Builder::new(name.parse().unwrap()).build_responder().unwrap();
    let (mut m, mut p) = ([0u8; 256], [0u8; 256]);
    let n = i.write_message(b"", &mut m).unwrap();
    r.read_message(&m[..n], &mut p).unwrap();
    let n = r.write_message(b"", &mut m).unwrap();
    i.read_message(&m[..n], &mut p).unwrap();
    (i, r)
}

#[test]
fn rekey_manually_without_keys_is_a_noop_stateful() {
    let (i, r) = pair();
    let (mut i, mut r) = (i.into_transport_mode().unwrap(), r.into_transport_mode().unwrap());
    let (mut m, mut p) = ([0u8; 256], [0u8; 256]);
    i.rekey_manually(None, None);
    let n = i.write_message(b"hello", &mut m).unwrap();
    let k = r.read_message(&m[..n], &mut p).expect("no direction was rekeyed");
    assert_eq!(&p[..k], b"hello");
    let n = r.write_message(b"back", &mut m).unwrap();
    let k = i.read_message(&m[..n], &mut p).expect("no direction was rekeyed");
    assert_eq!(&p[..k], b"back");
}

#[test]
fn rekey_manually_without_keys_is_a_noop_stateless() {
    let (i, r) = pair();
    let (i, mut r) = (i.into_stateless_transport_mode().unwrap(), r.into_stateless_transport_mode().unwrap());
    let (mut m, mut p) = ([0u8; 256], [0u8; 256]);
    r.rekey_manually(None, None);
    let n = i.write_message(5, b"hello", &mut m).unwrap();
    let k = r.read_message(5, &m[..n], &mut p).expect("no direction was rekeyed");
    assert_eq!(&p[..k], b"hello");
}
