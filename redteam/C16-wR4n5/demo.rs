use snow::Builder;

#[test]
fn stateless_sender_seventy_thousand_messages() {
    let name = "Noise_NN_25519_ChaChaPoly_SHA256";
    let mut i = Builder::new(name.parse().unwrap()).build_initiator().unwrap();
    let mut r = Builder::new(name.parse().unwrap()).build_responder().unwrap();
    let (mut m, mut p) = ([0u8; 256], [0u8; 256]);
    let n = i.write_message(&[], &mut m).unwrap();
    r.read_message(&m[..n], &mut p).unwrap();
    let n = r.write_message(&[], &mut m).unwrap();
    i.read_message(&m[..n], &mut p).unwrap();
    let (i, r) = (i.into_stateless_transport_mode().unwrap(), r.into_stateless_transport_mode().unwrap());
    for nonce in 0..70_000u64 {
        let n = i.write_message(nonce, &nonce.to_le_bytes(), &mut m).unwrap_or_else(|e| panic!("write under nonce {nonce}: {e:?}"));
        let l = r.read_message(nonce, &m[..n], &mut p).unwrap();
        assert_eq!(&p[..l], &nonce.to_le_bytes());
    }
}
