// C20: a FallbackResolver prefers its first member for every primitive that member provides -
// whatever was resolved before.
use snow::{
    params::{CipherChoice, DHChoice, HashChoice},
    resolvers::{CryptoResolver, DefaultResolver, FallbackResolver},
    types::{Cipher, Dh, Hash, Random},
};

/// Hands out DefaultResolver primitives, optionally without ciphers, and tags its hashes.
struct Tagged {
    tag: &'static str,
    ciphers: bool,
}
struct TaggedHash(&'static str, Box<dyn Hash>);
impl Hash for TaggedHash {
    fn name(&self) -> &'static str { self.0 }
    fn block_len(&self) -> usize { self.1.block_len() }
    fn hash_len(&self) -> usize { self.1.hash_len() }
    fn reset(&mut self) { self.1.reset() }
    fn input(&mut self, d: &[u8]) { self.1.input(d) }
    fn result(&mut self, o: &mut [u8]) { self.1.result(o) }
}
impl CryptoResolver for Tagged {
    fn resolve_rng(&self) -> Option<Box<dyn Random>> { DefaultResolver.resolve_rng() }
    fn resolve_dh(&self, c: &DHChoice) -> Option<Box<dyn Dh>> { DefaultResolver.resolve_dh(c) }
    fn resolve_hash(&self, c: &HashChoice) -> Option<Box<dyn Hash>> {
        DefaultResolver.resolve_hash(c).map(|h| Box::new(TaggedHash(self.tag, h)) as Box<dyn Hash>)
    }
    fn resolve_cipher(&self, c: &CipherChoice) -> Option<Box<dyn Cipher>> {
        if self.ciphers { DefaultResolver.resolve_cipher(c) } else { None }
    }
}

#[test]
fn preferred_member_serves_the_hash_even_after_a_cipher_came_from_the_fallback() {
    // e.g. an accelerator that offers hashes and DH but no AEAD, backed by the software resolver
    let fr = FallbackResolver::new(
        Box::new(Tagged { tag: "preferred", ciphers: false }),
        Box::new(Tagged { tag: "fallback", ciphers: true }),
    );
    assert_eq!(fr.resolve_hash(&HashChoice::SHA256).unwrap().name(), "preferred");
    assert!(fr.resolve_cipher(&CipherChoice::ChaChaPoly).is_some()); // only the fallback has it
    // this is the order Builder::build asks in: rng, cipher, hash, dh ...
    assert_eq!(fr.resolve_hash(&HashChoice::SHA256).unwrap().name(), "preferred");
    assert_eq!(fr.resolve_hash(&HashChoice::Blake2b).unwrap().name(), "preferred");
}
