use snow::Builder;

#[test]
fn every_returned_error_can_be_displayed() {
    let name = "Noise_NN_25519_ChaChaPoly_SHA256";
    let mut i = Builder::new(name.parse().unwrap()).build_initiator().unwrap();
    let mut r = Builder::new(name.parse().unwrap()).build_responder().unwrap();
    let (mut m, mut p) = ([0u8; 256], [0u8; 256]);
    let e = r.write_message(&[], &mut m).unwrap_err();
    assert!(!e.to_string().is_empty());
    let n = i.write_message(&[], &mut m).unwrap();
    r.read_message(&m[..n], &mut p).unwrap();
    let n = r.write_message(&[], &mut m).unwrap();
    i.read_message(&m[..n], &mut p).unwrap();
    let i = i.into_stateless_transport_mode().unwrap();
    // the reserved nonce: documented exhaustion error; logging it must not bring the process down
    let e = i.write_message(u64::MAX, b"x", &mut m).unwrap_err();
    let text = std::panic::catch_unwind(|| e.to_string());
    assert!(text.is_ok(), "Display of {e:?} panicked");
}
