//! C10: no public operation panics on any input. A transport message shorter than the 16-byte tag
//! must be refused with Err in both transport modes - in every build profile (this test runs in
//! the dev/test profile, where integer overflow checks are on, as in any debug build or any
//! release build with `overflow-checks = true`).
use snow::Builder;

fn hs() -> (snow::HandshakeState, snow::HandshakeState) {
    let params: snow::params::NoiseParams = "Noise_NN_25519_ChaChaPoly_SHA256".parse().unwrap();
    let mut i = Builder::new(params.clone()).build_initiator().unwrap();
    let mut r = Builder::new(params).build_responder().unwrap();
    let (mut a, mut b) = ([0_u8; 256], [0_u8; 256]);
    let n = i.write_message(&[], &mut a).unwrap();
    r.read_message(&a[..n], &mut b).unwrap();
    let n = r.write_message(&[], &mut a).unwrap();
    i.read_message(&a[..n], &mut b).unwrap();
    (i, r)
}

#[test]
fn short_transport_message_is_an_error_not_a_panic() {
    let (i, r) = hs();
    let mut t = r.into_transport_mode().unwrap();
    let s = i.into_stateless_transport_mode().unwrap();
    for len in [0usize, 1, 5, 15] {
        let msg = vec![0xAB; len];
        let res = std::panic::catch_unwind(std::panic::AssertUnwindSafe(|| {
            let mut out = [0u8; 64];
            (t.read_message(&msg, &mut out).is_err(), s.read_message(3, &msg, &mut out).is_err())
        }));
        assert_eq!(res.ok(), Some((true, true)), "len {len}: must be Err without unwinding");
    }
}
