// C10: set_psk at ANY position returns Ok or Err - never panics.
use snow::Builder;

#[test]
fn set_psk_at_huge_position_is_an_error_not_a_panic() {
    let mut h = Builder::new("Noise_NNpsk0_25519_ChaChaPoly_SHA256".parse().unwrap()).build_initiator().unwrap();
    for loc in [10usize, 255, 256, 65_536, usize::MAX - 1, usize::MAX] {
        assert!(h.set_psk(loc, &[7u8; 32]).is_err());
    }
}
