// C01/C02: after the last handshake message get_handshake_hash() must be the specification's h
// (channel binding), recomputed here from the wire bytes: for NN message 2 (e, ee, payload)
// h = SHA256(SHA256(h_before || e) || ciphertext).
use sha2::{Digest, Sha256};
use snow::Builder;

#[test]
fn handshake_hash_survives_the_last_message() {
    let name = "Noise_NN_25519_ChaChaPoly_SHA256";
    let mut i = Builder::new(name.parse().unwrap()).build_initiator().unwrap();
    let mut r = Builder::new(name.parse().unwrap()).build_responder().unwrap();
    let (mut m, mut p) = (vec![0u8; 256], vec![0u8; 256]);
    let n = i.write_message(b"a", &mut m).unwrap();
    r.read_message(&m[..n], &mut p).unwrap();
    let h1 = i.get_handshake_hash().to_vec();
    let n = r.write_message(b"b", &mut m).unwrap();
    assert!(r.was_write_payload_encrypted());
    let hr = r.get_handshake_hash().to_vec();
    i.read_message(&m[..n], &mut p).unwrap();
    let hi = i.get_handshake_hash().to_vec();
    assert!(i.is_handshake_finished() && r.is_handshake_finished());
    let mut d = Sha256::new();
    d.update(&h1);
    d.update(&m[..32]);
    let h2 = d.finalize();
    let mut d = Sha256::new();
    d.update(&h2);
    d.update(&m[32..n]);
    let expect = d.finalize().to_vec();
    assert_eq!(hr, expect, "responder: handshake hash after the last message is not the specification's");
    assert_eq!(hi, expect, "initiator: handshake hash after the last message is not the specification's");
}
