// C12 (a PSK that was not supplied is never replaced by a default) / C08 (a channel only if both
// sides agree on every PSK): set_psk with an empty or short key must be refused, not zero-padded.
use snow::Builder;

#[test]
fn short_or_empty_psk_is_not_zero_padded() {
    let name = "Noise_NNpsk0_25519_ChaChaPoly_SHA256";
    // initiator: the real 32-byte key that happens to end in a zero byte
    let mut full = [0x42u8; 32];
    full[31] = 0;
    let mut i = Builder::new(name.parse().unwrap()).psk(0, &full).unwrap().build_initiator().unwrap();
    // responder: supplies a DIFFERENT key (31 bytes) late
    let mut r = Builder::new(name.parse().unwrap()).build_responder().unwrap();
    let short = r.set_psk(0, &full[..31]);
    let (mut m, mut p) = ([0u8; 256], [0u8; 256]);
    let n = i.write_message(b"secret", &mut m).unwrap();
    let res = r.read_message(&m[..n], &mut p);
    assert!(short.is_err(), "a 31-byte PSK was accepted");
    assert!(res.is_err(), "responder without a (valid) PSK accepted a psk0 message");
    // and an empty key must not install the all-zero default
    let mut r2 = Builder::new(name.parse().unwrap()).build_responder().unwrap();
    assert!(r2.set_psk(0, &[]).is_err());
}
