// C12: a missing key is reported by a DESCRIPTIVE error at build time - the one naming the key
// that is actually missing.
use snow::{error::Prerequisite, Builder, Error};

#[test]
fn missing_remote_static_is_reported_as_such() {
    let k = [7u8; 32];
    for name in ["Noise_NK_25519_ChaChaPoly_SHA256", "Noise_IK_25519_AESGCM_SHA512", "Noise_KK_25519_ChaChaPoly_BLAKE2s"] {
        // local key supplied (whether needed or not), remote key withheld
        let r = Builder::new(name.parse().unwrap()).local_private_key(&k).unwrap().build_initiator();
        assert_eq!(r.err(), Some(Error::Prereq(Prerequisite::RemotePublicKey)), "{name}");
    }
}
