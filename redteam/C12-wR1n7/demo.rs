// C12 / C02: building succeeds iff the keys the pattern requires are supplied; an initiator and a
// responder built with consistent keys complete the handshake. Noise has no rule against both
// parties holding the same static key pair (a shared service identity, a node dialling its own
// replica), so a pinned remote key that equals the local public key must be accepted.
use snow::Builder;

#[test]
fn both_parties_may_hold_the_same_static_key_pair() {
    for name in ["Noise_KK_25519_ChaChaPoly_SHA256", "Noise_IK_25519_AESGCM_SHA512", "Noise_XK_P256_ChaChaPoly_BLAKE2s"] {
        let kp = Builder::new(name.parse().unwrap()).generate_keypair().unwrap();
        let mk = || Builder::new(name.parse().unwrap()).local_private_key(&kp.private).unwrap().remote_public_key(&kp.public).unwrap();
        let mut i = mk().build_initiator().unwrap_or_else(|e| panic!("{name}: initiator must build: {e:?}"));
        let mut r = mk().build_responder().unwrap_or_else(|e| panic!("{name}: responder must build: {e:?}"));
        let (mut m, mut p) = ([0u8; 512], [0u8; 512]);
        while !(i.is_handshake_finished() && r.is_handshake_finished()) {
            let (w, rd) = if i.is_my_turn() { (&mut i, &mut r) } else { (&mut r, &mut i) };
            let n = w.write_message(b"x", &mut m).unwrap();
            assert_eq!(rd.read_message(&m[..n], &mut p).unwrap(), 1);
        }
        assert_eq!(i.get_handshake_hash(), r.get_handshake_hash());
        assert_eq!(i.get_remote_static(), Some(&kp.public[..]));
    }
}
