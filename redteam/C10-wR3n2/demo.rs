// C10: no public operation panics - including the Debug impl ("querying state") of a finished
// HandshakeState.
use snow::Builder;

#[test]
fn debug_of_finished_handshake_does_not_panic() {
    let name = "Noise_NN_25519_ChaChaPoly_SHA256";
    let mut i = Builder::new(name.parse().unwrap()).build_initiator().unwrap();
    let mut r = Builder::new(name.parse().unwrap()).build_responder().unwrap();
    let (mut m, mut p) = ([0u8; 256], [0u8; 256]);
    let _ = format!("{i:?} {r:?}");
    let n = i.write_message(b"", &mut m).unwrap();
    r.read_message(&m[..n], &mut p).unwrap();
    let n = r.write_message(b"", &mut m).unwrap();
    i.read_message(&m[..n], &mut p).unwrap();
    assert!(i.is_handshake_finished());
    let s = format!("{i:?} {r:?}");
    assert!(s.contains("HandshakeState"));
}
