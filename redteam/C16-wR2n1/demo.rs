//! C16: stateless reads are pure functions of (keys, nonce, message) from any number of threads.
//! Several threads read *different* genuine messages concurrently from one shared
//! StatelessTransportState (ring backend) into exact-fit payload buffers (the detached path).
#![cfg(feature = "ring-resolver")]
use snow::{
    resolvers::{DefaultResolver, FallbackResolver, RingResolver},
    Builder, StatelessTransportState,
};
use std::sync::atomic::{AtomicBool, Ordering};

fn resolver() -> Box<FallbackResolver> {
    Box::new(FallbackResolver::new(Box::new(RingResolver), Box::new(DefaultResolver)))
}

fn session(name: &str) -> (StatelessTransportState, StatelessTransportState) {
    let params: snow::params::NoiseParams = name.parse().unwrap();
    let mut i = Builder::with_resolver(params.clone(), resolver()).build_initiator().unwrap();
    let mut r = Builder::with_resolver(params, resolver()).build_responder().unwrap();
    let (mut a, mut b) = ([0_u8; 256], [0_u8; 256]);
    let n = i.write_message(&[], &mut a).unwrap();
    r.read_message(&a[..n], &mut b).unwrap();
    let n = r.write_message(&[], &mut a).unwrap();
    i.read_message(&a[..n], &mut b).unwrap();
    (i.into_stateless_transport_mode().unwrap(), r.into_stateless_transport_mode().unwrap())
}

fn run(name: &str) {
    const THREADS: usize = 6;
    const ROUNDS: usize = 40_000;
    let (ini, resp) = session(name);
    let msgs: Vec<(u64, Vec<u8>, Vec<u8>)> = (0..THREADS as u64)
        .map(|t| {
            let payload = vec![t as u8 + 1; 40 + t as usize];
            let mut m = vec![0u8; payload.len() + 16];
            let n = ini.write_message(t, &payload, &mut m).unwrap();
            m.truncate(n);
            (t, payload, m)
        })
        .collect();
    let go = AtomicBool::new(false);
    let bad: Vec<usize> = std::thread::scope(|sc| {
        let hs: Vec<_> = msgs
            .iter()
            .map(|(nonce, payload, msg)| {
                let (go, resp) = (&go, &resp);
                sc.spawn(move || {
                    while !go.load(Ordering::Acquire) {
                        std::hint::spin_loop();
                    }
                    let mut bad = 0;
                    for _ in 0..ROUNDS {
                        let mut out = vec![0u8; payload.len()]; // exact fit
                        match resp.read_message(*nonce, msg, &mut out) {
                            Ok(n) if out[..n] == payload[..] => {},
                            _ => bad += 1,
                        }
                    }
                    bad
                })
            })
            .collect();
        go.store(true, Ordering::Release);
        hs.into_iter().map(|h| h.join().unwrap()).collect()
    });
    assert_eq!(bad.iter().sum::<usize>(), 0, "{name}: concurrent genuine reads failed: {bad:?}");
}

#[test]
fn concurrent_reads_chachapoly() {
    run("Noise_NN_25519_ChaChaPoly_SHA256");
}

#[test]
fn concurrent_reads_aesgcm() {
    run("Noise_NN_25519_AESGCM_SHA256");
}
