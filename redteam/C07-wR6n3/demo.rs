// C07 / C01: a write_message that returns Err is a no-op - also for the payload-encrypted
// indication. XX initiator: message 1 went out in clear; a refused attempt at message 3 (buffer
// too small) must not make was_write_payload_encrypted() claim that the previous write was
// encrypted.
use snow::Builder;

#[test]
fn failed_write_does_not_change_the_encrypted_indication() {
    let name = "Noise_XX_25519_ChaChaPoly_SHA256";
    let ki = Builder::new(name.parse().unwrap()).generate_keypair().unwrap();
    let kr = Builder::new(name.parse().unwrap()).generate_keypair().unwrap();
    let mut i = Builder::new(name.parse().unwrap()).local_private_key(&ki.private).unwrap().build_initiator().unwrap();
    let mut r = Builder::new(name.parse().unwrap()).local_private_key(&kr.private).unwrap().build_responder().unwrap();
    let (mut m, mut p) = (vec![0u8; 512], vec![0u8; 512]);
    let n = i.write_message(b"hello", &mut m).unwrap();
    assert!(!i.was_write_payload_encrypted(), "message 1 of XX carries a cleartext payload");
    r.read_message(&m[..n], &mut p).unwrap();
    let n = r.write_message(b"", &mut m).unwrap();
    i.read_message(&m[..n], &mut p).unwrap();
    let before = i.was_write_payload_encrypted();
    // message 3 needs 32 + 16 + 5 + 16 = 69 bytes; 60 are refused after the static key was processed
    let mut small = vec![0u8; 60];
    assert!(i.write_message(b"hello", &mut small).is_err());
    assert_eq!(i.was_write_payload_encrypted(), before, "a failed write changed was_write_payload_encrypted()");
    // and the retry is the real message 3
    let n = i.write_message(b"hello", &mut m).unwrap();
    assert!(i.was_write_payload_encrypted());
    r.read_message(&m[..n], &mut p).unwrap();
}
