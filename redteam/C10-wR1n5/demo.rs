// C10 / C12: building returns Ok or Err for any resolver. `CryptoResolver` is a public trait whose
// methods return Option on every call; a resolver that can hand out only a limited number of
// instances (a pool, a hardware token) yields None on a later call. The builder asks for two DH
// objects and three ciphers: a shortage must surface as Init(GetDhImpl) / Init(GetCipherImpl).
use snow::{
    params::{CipherChoice, DHChoice, HashChoice},
    resolvers::{CryptoResolver, DefaultResolver},
    types::{Cipher, Dh, Hash, Random},
    Builder,
};
use std::sync::atomic::{AtomicUsize, Ordering};

struct Scarce {
    dh_left: AtomicUsize,
    cipher_left: AtomicUsize,
}

impl CryptoResolver for Scarce {
    fn resolve_rng(&self) -> Option<Box<dyn Random>> {
        DefaultResolver.resolve_rng()
    }
    fn resolve_dh(&self, c: &DHChoice) -> Option<Box<dyn Dh>> {
        if self.dh_left.fetch_update(Ordering::SeqCst, Ordering::SeqCst, |n| n.checked_sub(1)).is_err() {
            return None;
        }
        DefaultResolver.resolve_dh(c)
    }
    fn resolve_hash(&self, c: &HashChoice) -> Option<Box<dyn Hash>> {
        DefaultResolver.resolve_hash(c)
    }
    fn resolve_cipher(&self, c: &CipherChoice) -> Option<Box<dyn Cipher>> {
        if self.cipher_left.fetch_update(Ordering::SeqCst, Ordering::SeqCst, |n| n.checked_sub(1)).is_err() {
            return None;
        }
        DefaultResolver.resolve_cipher(c)
    }
}

#[test]
fn resolver_running_out_of_instances_is_a_build_error() {
    for (dh, ci) in [(1usize, 3usize), (2, 1), (2, 2), (0, 3), (2, 0)] {
        let r = std::panic::catch_unwind(|| {
            let res = Scarce { dh_left: AtomicUsize::new(dh), cipher_left: AtomicUsize::new(ci) };
            Builder::with_resolver("Noise_NN_25519_ChaChaPoly_SHA256".parse().unwrap(), Box::new(res))
                .build_initiator()
                .is_err()
        });
        assert_eq!(r.ok(), Some(true), "dh instances {dh}, cipher instances {ci}: build must return Err");
    }
    let res = Scarce { dh_left: AtomicUsize::new(2), cipher_left: AtomicUsize::new(3) };
    assert!(Builder::with_resolver("Noise_NN_25519_ChaChaPoly_SHA256".parse().unwrap(), Box::new(res)).build_initiator().is_ok());
}
