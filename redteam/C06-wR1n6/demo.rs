// C06 (second clause): every ephemeral key placed in a handshake message is drawn from the
// RESOLVER's random source. A resolver without a random source must therefore make the build
// fail (documented: Init(GetRngImpl)); an endpoint must never silently draw its ephemerals (or
// generated static keys) from somewhere else.
use snow::{
    error::{Error, InitStage},
    params::{CipherChoice, DHChoice, HashChoice},
    resolvers::{CryptoResolver, DefaultResolver},
    types::{Cipher, Dh, Hash, Random},
    Builder,
};

struct NoRng;

impl CryptoResolver for NoRng {
    fn resolve_rng(&self) -> Option<Box<dyn Random>> {
        None
    }
    fn resolve_dh(&self, c: &DHChoice) -> Option<Box<dyn Dh>> {
        DefaultResolver.resolve_dh(c)
    }
    fn resolve_hash(&self, c: &HashChoice) -> Option<Box<dyn Hash>> {
        DefaultResolver.resolve_hash(c)
    }
    fn resolve_cipher(&self, c: &CipherChoice) -> Option<Box<dyn Cipher>> {
        DefaultResolver.resolve_cipher(c)
    }
}

#[test]
fn no_ephemeral_without_the_resolvers_random_source() {
    let mk = || Builder::with_resolver("Noise_NN_25519_ChaChaPoly_SHA256".parse().unwrap(), Box::new(NoRng));
    match mk().build_initiator() {
        Err(e) => assert_eq!(e, Error::Init(InitStage::GetRngImpl)),
        Ok(mut hs) => {
            let mut m = [0u8; 128];
            let r = hs.write_message(b"", &mut m);
            panic!("built without a random source; write_message -> {r:?}, ephemeral {:02x?}.. not from the resolver", &m[..8]);
        },
    }
    assert_eq!(mk().generate_keypair().err(), Some(Error::Init(InitStage::GetRngImpl)));
}
