// C10 (and the documented Init(GetDhImpl) of generate_keypair): a name whose DH function no
// resolver implements parses; generating a key pair for it must return Err, not panic.
use snow::Builder;

#[test]
fn keygen_for_unimplemented_dh_is_an_error() {
    let b = Builder::new("Noise_NN_448_ChaChaPoly_SHA256".parse().unwrap());
    assert!(b.generate_keypair().is_err());
    // ring has no DH at all
    let b = Builder::with_resolver("Noise_NN_25519_ChaChaPoly_SHA256".parse().unwrap(), Box::new(snow::resolvers::RingResolver));
    assert!(b.generate_keypair().is_err());
}
