// C12: building succeeds iff the keys the pattern requires are supplied (surplus keys are
// allowed - `set_psk` documents "Snow won't stop you from placing a PSK in an unused slot", and a
// surplus static key is accepted as well). A PSK in a slot the pattern does not name must not
// make the build fail, and the session must run as if it were absent.
use snow::Builder;

#[test]
fn surplus_psk_does_not_prevent_building() {
    let key = [9u8; 32];
    for name in ["Noise_NN_25519_ChaChaPoly_SHA256", "Noise_NNpsk2_25519_ChaChaPoly_SHA256"] {
        let mk = || Builder::new(name.parse().unwrap()).psk(2, &key).unwrap().psk(1, &key).unwrap();
        let mut i = mk().build_initiator().expect("surplus PSK in slot 1: initiator must build");
        let mut r = mk().build_responder().expect("surplus PSK in slot 1: responder must build");
        let (mut m, mut p) = ([0u8; 256], [0u8; 256]);
        let n = i.write_message(b"hi", &mut m).unwrap();
        r.read_message(&m[..n], &mut p).unwrap();
        let n = r.write_message(b"ho", &mut m).unwrap();
        i.read_message(&m[..n], &mut p).unwrap();
        assert!(i.is_handshake_finished() && r.is_handshake_finished());
    }
}
