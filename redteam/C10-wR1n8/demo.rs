// C10 / C07: no call panics, however many calls failed before; a failed call is a no-op, so after
// any number of rejected messages the genuine one is still accepted. (A peer on the network can
// make a responder's read fail as often as it likes.)
use snow::Builder;

#[test]
fn any_number_of_rejected_messages_is_survivable() {
    let name = "Noise_NN_25519_ChaChaPoly_SHA256";
    let mut i = Builder::new(name.parse().unwrap()).build_initiator().unwrap();
    let mut r = Builder::new(name.parse().unwrap()).build_responder().unwrap();
    let (mut m, mut p) = ([0u8; 256], [0u8; 256]);
    let n = i.write_message(b"", &mut m).unwrap();
    r.read_message(&m[..n], &mut p).unwrap();
    let n = r.write_message(b"ok", &mut m).unwrap();
    let outcome = std::panic::catch_unwind(std::panic::AssertUnwindSafe(|| {
        for k in 0..200usize {
            let mut bad = m[..n].to_vec();
            bad[n - 1 - (k % 16)] ^= 1;
            assert!(i.read_message(&bad, &mut p).is_err());
        }
    }));
    assert!(outcome.is_ok(), "read_message panicked after repeated rejections");
    assert_eq!(i.read_message(&m[..n], &mut p).unwrap(), 2);
    assert!(i.is_handshake_finished());
}
