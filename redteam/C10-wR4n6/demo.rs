use snow::{resolvers::RingResolver, Builder};

#[test]
fn keygen_with_a_resolver_that_has_no_dh_is_an_error() {
    // RingResolver (a stock resolver) provides no DH function at all
    let b = Builder::with_resolver("Noise_NN_25519_ChaChaPoly_SHA256".parse().unwrap(), Box::new(RingResolver));
    let r = std::panic::catch_unwind(std::panic::AssertUnwindSafe(|| b.generate_keypair()));
    assert!(matches!(r, Ok(Err(_))), "generate_keypair -> {:?}", r.map(|x| x.map(|_| ())));
    // a name snow parses but no resolver implements
    let b = Builder::new("Noise_NN_448_ChaChaPoly_SHA256".parse().unwrap());
    let r = std::panic::catch_unwind(std::panic::AssertUnwindSafe(|| b.generate_keypair()));
    assert!(matches!(r, Ok(Err(_))));
}
