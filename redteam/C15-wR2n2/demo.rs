//! C15: when both sides install the same manual key, later messages are delivered (stateful and
//! stateless). Here the manual key is the all-zero key (a special value, still a valid key).
use snow::Builder;

fn hs() -> (snow::HandshakeState, snow::HandshakeState) {
    let params: snow::params::NoiseParams = "Noise_NN_25519_ChaChaPoly_SHA256".parse().unwrap();
    let mut i = Builder::new(params.clone()).build_initiator().unwrap();
    let mut r = Builder::new(params).build_responder().unwrap();
    let (mut a, mut b) = ([0_u8; 256], [0_u8; 256]);
    let n = i.write_message(&[], &mut a).unwrap();
    r.read_message(&a[..n], &mut b).unwrap();
    let n = r.write_message(&[], &mut a).unwrap();
    i.read_message(&a[..n], &mut b).unwrap();
    (i, r)
}

#[test]
fn zero_manual_key_stateful() {
    let (i, r) = hs();
    let (mut i, mut r) = (i.into_transport_mode().unwrap(), r.into_transport_mode().unwrap());
    let z = [0u8; 32];
    i.rekey_manually(Some(&z), None);
    r.rekey_initiator_manually(&z);
    let (mut m, mut p) = ([0u8; 64], [0u8; 64]);
    let n = i.write_message(b"after zero key", &mut m).expect("write under the installed key");
    let k = r.read_message(&m[..n], &mut p).expect("peer holds the same key");
    assert_eq!(&p[..k], b"after zero key");
}

#[test]
fn zero_manual_key_stateless() {
    let (i, r) = hs();
    let (mut i, mut r) =
        (i.into_stateless_transport_mode().unwrap(), r.into_stateless_transport_mode().unwrap());
    let z = [0u8; 32];
    i.rekey_manually(None, Some(&z));
    r.rekey_manually(None, Some(&z));
    let (mut m, mut p) = ([0u8; 64], [0u8; 64]);
    let n = r.write_message(7, b"hello", &mut m).expect("write under the installed key");
    let k = i.read_message(7, &m[..n], &mut p).expect("peer holds the same key");
    assert_eq!(&p[..k], b"hello");
}
