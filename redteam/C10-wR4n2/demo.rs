use snow::Builder;

#[test]
fn set_psk_far_out_of_range_location_is_an_error_not_a_panic() {
    let mut hs = Builder::new("Noise_NNpsk0_25519_ChaChaPoly_SHA256".parse().unwrap()).build_initiator().unwrap();
    for location in [10usize, 255, 256, 257, 265, 266, 512, 65536, usize::MAX] {
        let r = std::panic::catch_unwind(std::panic::AssertUnwindSafe(|| hs.set_psk(location, &[7u8; 32])));
        assert!(matches!(r, Ok(Err(_))), "set_psk({location}, ..) -> {r:?}");
    }
}
