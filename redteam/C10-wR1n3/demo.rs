// C10: reading any byte string returns Ok or Err. A handshake message whose encrypted payload is
// cut inside its 16-byte tag must be rejected with an error, not with a panic - in every build
// profile (this test runs in the default dev profile, i.e. with overflow checks).
use snow::Builder;

#[test]
fn truncated_encrypted_handshake_payload_is_an_error() {
    let name = "Noise_NN_25519_ChaChaPoly_SHA256";
    let mut i = Builder::new(name.parse().unwrap()).build_initiator().unwrap();
    let mut r = Builder::new(name.parse().unwrap()).build_responder().unwrap();
    let (mut m, mut p) = ([0u8; 256], [0u8; 256]);
    let n = i.write_message(b"", &mut m).unwrap();
    r.read_message(&m[..n], &mut p).unwrap();
    let n = r.write_message(b"", &mut m).unwrap(); // e (32) + tag (16)
    assert_eq!(n, 48);
    let res = std::panic::catch_unwind(std::panic::AssertUnwindSafe(|| i.read_message(&m[..n - 5], &mut p)));
    assert!(matches!(res, Ok(Err(_))), "truncated message: {res:?}");
    // the genuine message is still accepted afterwards
    i.read_message(&m[..n], &mut p).unwrap();
    assert!(i.is_handshake_finished());
}
