//! C16 / C01: the message a stateful sender produces as its n-th message is byte-identical to the
//! stateless message at nonce n (same session keys), for every n - here n = 2^18, reached by
//! counting (not by placing a nonce).
use snow::Builder;

#[test]
fn stateful_message_2_pow_18_equals_stateless() {
    let params: snow::params::NoiseParams = "Noise_NN_25519_ChaChaPoly_BLAKE2s".parse().unwrap();
    let mut i = Builder::new(params.clone()).build_initiator().unwrap();
    let mut r = Builder::new(params).build_responder().unwrap();
    let (mut a, mut b) = ([0_u8; 256], [0_u8; 256]);
    let n = i.write_message(&[], &mut a).unwrap();
    r.read_message(&a[..n], &mut b).unwrap();
    let n = r.write_message(&[], &mut a).unwrap();
    i.read_message(&a[..n], &mut b).unwrap();
    let mut i = i.into_transport_mode().unwrap();
    let r = r.into_stateless_transport_mode().unwrap();

    let (mut m, mut p) = ([0u8; 64], [0u8; 64]);
    let total: u64 = (1 << 18) + 3;
    for k in 0..total {
        assert_eq!(i.sending_nonce(), k);
        let n = i.write_message(&k.to_le_bytes(), &mut m).unwrap();
        if k % 4096 == 0 || k >= (1 << 18) - 2 {
            let got = r.read_message(k, &m[..n], &mut p).unwrap_or_else(|e| {
                panic!("stateless peer rejects the sender's message number {k}: {e:?}")
            });
            assert_eq!(&p[..got], &k.to_le_bytes());
        }
    }
}
