// C02 / C05 / C09: an established stateful session delivers every later payload; the only
// exhaustion is the nonce limit. (Takes a little over three minutes: it waits.)
use snow::Builder;

#[test]
fn session_still_works_after_three_minutes() {
    let params: snow::params::NoiseParams = "Noise_NN_25519_ChaChaPoly_BLAKE2s".parse().unwrap();
    let mut i = Builder::new(params.clone()).build_initiator().unwrap();
    let mut r = Builder::new(params).build_responder().unwrap();
    let (mut m, mut p) = (vec![0u8; 256], vec![0u8; 256]);
    let n = i.write_message(b"", &mut m).unwrap();
    r.read_message(&m[..n], &mut p).unwrap();
    let n = r.write_message(b"", &mut m).unwrap();
    i.read_message(&m[..n], &mut p).unwrap();
    let (mut i, mut r) = (i.into_transport_mode().unwrap(), r.into_transport_mode().unwrap());
    let n = i.write_message(b"first", &mut m).unwrap();
    assert_eq!(r.read_message(&m[..n], &mut p).unwrap(), 5);
    std::thread::sleep(std::time::Duration::from_secs(181));
    assert_eq!(i.sending_nonce(), 1);
    let n = i.write_message(b"second", &mut m).expect("write on an idle but healthy session");
    assert_eq!(r.read_message(&m[..n], &mut p).expect("read on an idle but healthy session"), 6);
    assert_eq!(&p[..6], b"second");
}
