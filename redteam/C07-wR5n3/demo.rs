// C07 / C06: a failed handshake write is a no-op - in the build profile applications ship
// (run with `cargo test --release ...`; debug assertions are off there).
use snow::Builder;

#[test]
fn failed_write_is_a_noop_in_release_builds() {
    let params: snow::params::NoiseParams = "Noise_XX_25519_ChaChaPoly_SHA256".parse().unwrap();
    let ki = Builder::new(params.clone()).generate_keypair().unwrap();
    let kr = Builder::new(params.clone()).generate_keypair().unwrap();
    let mut i = Builder::new(params.clone()).local_private_key(&ki.private).unwrap().build_initiator().unwrap();
    let mut r = Builder::new(params).local_private_key(&kr.private).unwrap().build_responder().unwrap();
    let (mut m, mut p) = (vec![0u8; 1024], vec![0u8; 1024]);
    let h0 = i.get_handshake_hash().to_vec();
    // message 1 needs 32 + 5 (+16 spare) bytes: a 40-byte buffer is refused after `e` was processed
    assert!(i.write_message(b"hello", &mut m[..40]).is_err());
    assert_eq!(i.get_handshake_hash(), &h0[..], "failed write changed the handshake hash");
    let n = i.write_message(b"hello", &mut m).unwrap();
    r.read_message(&m[..n], &mut p).unwrap();
    let n = r.write_message(b"", &mut m).unwrap();
    i.read_message(&m[..n], &mut p).expect("handshake must continue after the retried write");
    // a rejected read must not disturb the responder either
    let n = i.write_message(b"", &mut m).unwrap();
    let mut bad = m[..n].to_vec();
    bad[10] ^= 1;
    assert!(r.read_message(&bad, &mut p).is_err());
    r.read_message(&m[..n], &mut p).expect("genuine message after a rejected one");
    assert_eq!(i.get_handshake_hash(), r.get_handshake_hash());
}
