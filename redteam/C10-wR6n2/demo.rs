// C10: a builder configured with a remote static key of any length (here 0, 1, 16, 31 bytes: all
// accepted by build_initiator) must yield a session whose write_message returns Ok or Err.
use snow::Builder;

#[test]
fn short_remote_static_key_never_panics_in_write() {
    for name in ["Noise_NK_25519_ChaChaPoly_SHA256", "Noise_N_25519_AESGCM_SHA512", "Noise_IK_25519_ChaChaPoly_BLAKE2s"] {
        for len in [0usize, 1, 16, 31] {
            let rs = vec![7u8; len];
            let s = [9u8; 32];
            let r = std::panic::catch_unwind(|| {
                let mut b = Builder::new(name.parse().unwrap()).remote_public_key(&rs).unwrap();
                if name.contains("IK") {
                    b = b.local_private_key(&s).unwrap();
                }
                match b.build_initiator() {
                    Ok(mut hs) => {
                        let mut m = vec![0u8; 256];
                        let _ = hs.write_message(b"x", &mut m);
                    },
                    Err(_) => {},
                }
            });
            assert!(r.is_ok(), "{name}: write_message panicked for a {len}-byte remote static key");
        }
    }
}
