// C12/C07/C02: a PSK supplied late through set_psk (here the all-zero key, WireGuard's "no PSK"
// default) must be usable: after MissingPsk, set_psk + retry completes the handshake.
use snow::Builder;

#[test]
fn late_all_zero_psk_completes() {
    let name = "Noise_NNpsk2_25519_ChaChaPoly_SHA256";
    let mut i = Builder::new(name.parse().unwrap()).build_initiator().unwrap();
    let mut r = Builder::new(name.parse().unwrap()).build_responder().unwrap();
    let (mut m, mut p) = ([0u8; 256], [0u8; 256]);
    let n = i.write_message(b"a", &mut m).unwrap();
    r.read_message(&m[..n], &mut p).unwrap();
    // message 2 needs psk2: not supplied yet -> error, no default
    assert!(r.write_message(b"b", &mut m).is_err());
    let psk = [0u8; 32];
    r.set_psk(2, &psk).expect("a 32-byte PSK in a valid slot must be accepted");
    i.set_psk(2, &psk).expect("a 32-byte PSK in a valid slot must be accepted");
    let n = r.write_message(b"b", &mut m).expect("retry after set_psk must succeed");
    let k = i.read_message(&m[..n], &mut p).unwrap();
    assert_eq!(&p[..k], b"b");
    assert!(i.is_handshake_finished() && r.is_handshake_finished());
    assert_eq!(i.get_handshake_hash(), r.get_handshake_hash());
}
