// A protocol name whose out-of-range psk modifier is not the last one must be refused at build
// time with an error (C12) - and must never panic (C10).
use snow::{params::NoiseParams, Builder};

#[test]
fn out_of_range_psk_modifier_that_is_not_last_is_an_error() {
    for name in [
        "Noise_NNpsk3+psk0_25519_ChaChaPoly_SHA256",
        "Noise_XXpsk4+psk1_25519_AESGCM_SHA512",
        "Noise_Npsk2+psk0_25519_ChaChaPoly_BLAKE2s",
    ] {
        let params: NoiseParams = name.parse().unwrap();
        let k = [7u8; 32];
        let s = [1u8; 32];
        let r = std::panic::catch_unwind(move || {
            Builder::new(params)
                .local_private_key(&s).unwrap()
                .remote_public_key(&k).unwrap()
                .psk(0, &k).unwrap()
                .psk(1, &k).unwrap()
                .psk(2, &k).unwrap()
                .psk(3, &k).unwrap()
                .psk(4, &k).unwrap()
                .build_initiator()
                .is_err()
        });
        assert_eq!(r.ok(), Some(true), "{name}: build must return Err (no panic, no success)");
    }
}
