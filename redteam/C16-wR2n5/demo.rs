//! C16: first concurrent *reads* under a freshly installed key must all succeed (default AES-GCM).
use snow::{Builder, StatelessTransportState};
use std::sync::atomic::{AtomicBool, Ordering};

fn session() -> (StatelessTransportState, StatelessTransportState) {
    let params: snow::params::NoiseParams = "Noise_NN_25519_AESGCM_SHA256".parse().unwrap();
    let mut i = Builder::new(params.clone()).build_initiator().unwrap();
    let mut r = Builder::new(params).build_responder().unwrap();
    let (mut a, mut b) = ([0_u8; 256], [0_u8; 256]);
    let n = i.write_message(&[], &mut a).unwrap();
    r.read_message(&a[..n], &mut b).unwrap();
    let n = r.write_message(&[], &mut a).unwrap();
    i.read_message(&a[..n], &mut b).unwrap();
    (i.into_stateless_transport_mode().unwrap(), r.into_stateless_transport_mode().unwrap())
}

#[test]
fn concurrent_first_reads_after_rekey() {
    let (mut ini, mut resp) = session();
    let mut bad = 0usize;
    for round in 0..5_000u64 {
        if bad > 0 {
            break;
        }
        ini.rekey_outgoing();
        resp.rekey_incoming();
        let msgs: Vec<Vec<u8>> = (0..4u64)
            .map(|t| {
                let mut m = vec![0u8; 48];
                let n = ini.write_message(round * 4 + t, &[t as u8; 32], &mut m).unwrap();
                m.truncate(n);
                m
            })
            .collect();
        let go = AtomicBool::new(false);
        let (resp_ref, go_ref) = (&resp, &go);
        bad += std::thread::scope(|sc| {
            let hs: Vec<_> = msgs
                .iter()
                .enumerate()
                .map(|(t, m)| {
                    sc.spawn(move || {
                        let mut out = [0u8; 64];
                        while !go_ref.load(Ordering::Acquire) {
                            std::hint::spin_loop();
                        }
                        resp_ref.read_message(round * 4 + t as u64, m, &mut out).is_err() as usize
                    })
                })
                .collect();
            go.store(true, Ordering::Release);
            hs.into_iter().map(|h| h.join().unwrap()).sum::<usize>()
        });
    }
    assert_eq!(bad, 0, "genuine messages rejected right after a synchronised rekey");
}
