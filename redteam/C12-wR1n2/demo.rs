// C12: a PSK that was not supplied is reported as an error at the message that needs it and is
// never replaced by some other key. Here the pattern names psk2, but both parties configured
// their key in slot 0: message 2 must fail with MissingPsk on the writer.
use snow::{error::{Error, StateProblem}, Builder};

#[test]
fn unsupplied_psk_is_an_error_even_if_another_slot_is_filled() {
    let name = "Noise_NNpsk2_25519_ChaChaPoly_SHA256";
    let key = [0x42u8; 32];
    let mut i = Builder::new(name.parse().unwrap()).psk(0, &key).unwrap().build_initiator().unwrap();
    let mut r = Builder::new(name.parse().unwrap()).psk(0, &key).unwrap().build_responder().unwrap();
    let (mut m, mut p) = ([0u8; 256], [0u8; 256]);
    let n = i.write_message(b"", &mut m).unwrap();
    r.read_message(&m[..n], &mut p).unwrap();
    let res = r.write_message(b"", &mut m);
    assert_eq!(res, Err(Error::State(StateProblem::MissingPsk)), "psk2 was never supplied");
    // and after supplying it the session completes
    r.set_psk(2, &key).unwrap();
    i.set_psk(2, &key).unwrap();
    let n = r.write_message(b"", &mut m).unwrap();
    i.read_message(&m[..n], &mut p).unwrap();
    assert!(i.is_handshake_finished() && r.is_handshake_finished());
}
