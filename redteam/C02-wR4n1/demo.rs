// run: cargo test --offline --features use-p256,use-xchacha20poly1305,ring-resolver,verif-hooks,risky-raw-split --test demo_r4_1
#![cfg(feature = "risky-raw-split")]
use snow::Builder;

#[test]
fn raw_split_is_a_pure_query() {
    let name = "Noise_XX_25519_ChaChaPoly_SHA256";
    let kb = Builder::new(name.parse().unwrap());
    let (ki, kr) = (kb.generate_keypair().unwrap(), kb.generate_keypair().unwrap());
    let mut i = Builder::new(name.parse().unwrap()).local_private_key(&ki.private).unwrap().build_initiator().unwrap();
    let mut r = Builder::new(name.parse().unwrap()).local_private_key(&kr.private).unwrap().build_responder().unwrap();
    let (mut m, mut p) = ([0u8; 1024], [0u8; 1024]);
    let n = i.write_message(b"one", &mut m).unwrap();
    r.read_message(&m[..n], &mut p).unwrap();
    // asking for the raw split in the middle of the handshake must not disturb the session (C01/C02)
    let _early = r.dangerously_get_raw_split();
    let n = r.write_message(b"two", &mut m).unwrap();
    i.read_message(&m[..n], &mut p).expect("honest message 2 must be accepted");
    let n = i.write_message(b"three", &mut m).unwrap();
    r.read_message(&m[..n], &mut p).expect("honest message 3 must be accepted");
    assert_eq!(i.get_handshake_hash(), r.get_handshake_hash());
    // and it is the Split() of the final chaining key however often it is asked for
    let a = i.dangerously_get_raw_split();
    let b = i.dangerously_get_raw_split();
    assert_eq!(a, b, "second raw split differs from the first");
    assert_eq!(a, r.dangerously_get_raw_split());
}
