//! C16 layer (c): real threads with *preemptive* seeded scheduling under Miri on one shared
//! StatelessTransportState per endpoint. Default (pure Rust) backend only. Every result must
//! equal what the same call returns sequentially (pure function of keys, nonce, input).
//! Run: MIRIFLAGS="-Zmiri-many-seeds=0..N -Zmiri-preemption-rate=0.1" cargo +nightly miri run

use snow::params::{CipherChoice, DHChoice, HashChoice};
use snow::resolvers::{CryptoResolver, DefaultResolver};
use snow::types::{Cipher, Dh, Hash, Random};
use std::sync::Arc;

struct CountRng(u64);
impl rand_core::RngCore for CountRng {
    fn next_u32(&mut self) -> u32 {
        self.next_u64() as u32
    }
    fn next_u64(&mut self) -> u64 {
        self.0 = self.0.wrapping_mul(6364136223846793005).wrapping_add(1442695040888963407);
        self.0
    }
    fn fill_bytes(&mut self, d: &mut [u8]) {
        for b in d.iter_mut() {
            *b = (self.next_u64() >> 33) as u8;
        }
    }
    fn try_fill_bytes(&mut self, d: &mut [u8]) -> Result<(), rand_core::Error> {
        self.fill_bytes(d);
        Ok(())
    }
}
impl rand_core::CryptoRng for CountRng {}
impl Random for CountRng {}

struct R(u64);
impl CryptoResolver for R {
    fn resolve_rng(&self) -> Option<Box<dyn Random>> {
        Some(Box::new(CountRng(self.0)))
    }
    fn resolve_dh(&self, c: &DHChoice) -> Option<Box<dyn Dh>> {
        DefaultResolver.resolve_dh(c)
    }
    fn resolve_hash(&self, c: &HashChoice) -> Option<Box<dyn Hash>> {
        DefaultResolver.resolve_hash(c)
    }
    fn resolve_cipher(&self, c: &CipherChoice) -> Option<Box<dyn Cipher>> {
        DefaultResolver.resolve_cipher(c)
    }
}

fn main() {
    let name = std::env::args().nth(1).unwrap_or_else(|| "Noise_NN_25519_ChaChaPoly_BLAKE2s".to_string());
    let mut i = snow::Builder::with_resolver(name.parse().unwrap(), Box::new(R(1))).build_initiator().unwrap();
    let mut r = snow::Builder::with_resolver(name.parse().unwrap(), Box::new(R(2))).build_responder().unwrap();
    let (mut m, mut p) = (vec![0u8; 256], vec![0u8; 256]);
    let n = i.write_message(b"", &mut m).unwrap();
    r.read_message(&m[..n], &mut p).unwrap();
    let n = r.write_message(b"", &mut m).unwrap();
    i.read_message(&m[..n], &mut p).unwrap();
    let i = Arc::new(i.into_stateless_transport_mode().unwrap());
    let r = Arc::new(r.into_stateless_transport_mode().unwrap());

    // sequential reference results
    let nonces: [u64; 6] = [0, 1, 0xFFFF_FFFF, 1 << 32, 1 << 63, u64::MAX - 1];
    let mut expected = vec![];
    for (k, &nonce) in nonces.iter().enumerate() {
        let payload = vec![k as u8 + 1; 5 + 7 * k];
        let mut ci = vec![0u8; payload.len() + 16];
        let li = i.write_message(nonce, &payload, &mut ci).unwrap();
        ci.truncate(li);
        let mut cr = vec![0u8; payload.len() + 16];
        let lr = r.write_message(nonce, &payload, &mut cr).unwrap();
        cr.truncate(lr);
        expected.push((nonce, payload, ci, cr));
    }
    let expected = Arc::new(expected);

    let mut hs = vec![];
    for t in 0..3usize {
        let (i, r, expected) = (i.clone(), r.clone(), expected.clone());
        hs.push(std::thread::spawn(move || {
            // each thread touches both endpoints, writes and reads, in a thread-specific order
            for step in 0..2usize {
                let k = (t * 2 + step * 3) % expected.len();
                let (nonce, payload, ci, cr) = &expected[k];
                let mut buf = vec![0u8; payload.len() + 16];
                if (t + step) % 2 == 0 {
                    let l = i.write_message(*nonce, payload, &mut buf).unwrap();
                    assert_eq!(&buf[..l], &ci[..], "initiator write differs under concurrency");
                    let l = r.read_message(*nonce, ci, &mut buf).unwrap();
                    assert_eq!(&buf[..l], &payload[..], "responder read differs under concurrency");
                } else {
                    let l = r.write_message(*nonce, payload, &mut buf).unwrap();
                    assert_eq!(&buf[..l], &cr[..], "responder write differs under concurrency");
                    let l = i.read_message(*nonce, cr, &mut buf).unwrap();
                    assert_eq!(&buf[..l], &payload[..], "initiator read differs under concurrency");
                    assert!(i.read_message(nonce ^ 1, cr, &mut buf).is_err(), "wrong nonce accepted");
                }
            }
        }));
    }
    for h in hs {
        h.join().expect("thread panicked");
    }
    println!("miri-threads ok {name}");
}
