#!/usr/bin/env python3
"""Round-5 (theme-based) sub-agent changes -> /verif/seeded/<prop>-r4<group><k>/"""
import os, re, json, shutil
MAP={('H1','A'):'C05',('H1','B'):'C12',('H2','A'):'C15',('H2','B'):'C05',('H3','A'):'C12',('H3','B'):'C02',
     ('H4','A'):'C01',('H4','B'):'C10',('H5','A'):'C15',('H5','B'):'C05',('H6','A'):'C07',('H6','B'):'C07'}
ALSO={('H1','A'):['C07','C04','C16'],('H1','B'):['C01'],('H2','B'):['C09'],('H3','A'):['C08','C07'],('H4','B'):['C20'],('H5','A'):['C16'],('H5','B'):['C15'],('H6','A'):['C11'],('H6','B'):['C17']}
caught={}
if os.path.exists('/tmp/eval_r5.log'):
    cur=None
    for line in open('/tmp/eval_r5.log'):
        m=re.match(r'^#+ (H\d)/([AB])',line)
        if m: cur=(m.group(1),m.group(2)); continue
        if line.startswith('####'): cur=None; continue
        m=re.match(r'^CAUGHT-BY:(.*)',line)
        if m and cur: caught[cur]=m.group(1).split()
verify={}
for line in open('/tmp/verify_round5.log'):
    m=re.match(r'^RESULT (H\d)/([AB]) (.*)',line)
    if m: verify[(m.group(1),m.group(2))]=m.group(3).strip()
for (area,k),prop in MAP.items():
    src=f'/tmp/mut5-{area}/{k}'
    sid=f'{prop}-r5{area}{k}'
    dst=f'/verif/seeded/{sid}'
    os.makedirs(dst,exist_ok=True)
    for f in ('patch.diff','demo.rs','notes.md'):
        if os.path.exists(f'{src}/{f}'): shutil.copy(f'{src}/{f}',f'{dst}/{f}')
    notes=open(f'{src}/notes.md').read() if os.path.exists(f'{src}/notes.md') else ''
    cb=caught.get((area,k))
    meta={'id':sid,'breaks_property':prop,'also_breaks':ALSO.get((area,k),[]),
      'origin':'independent sub-agent, round 5 (given the property statements and a theme - process-wide state, accessor surface, builder and name parsing, crypto wrappers, transport phase, free choice - asked for changes that need something specific to manifest)',
      'base_commit':'f9dd753',
      'files_touched':sorted(set(re.findall(r'^\+\+\+ b/(\S+)',open(f'{src}/patch.diff').read(),re.M))),
      'needs_to_manifest':notes.strip()[:1500],
      'confirmed':{'how':'tools/verify_mutant.sh: patch applied in a scratch worktree; unedited `cargo test --offline` suite; demo run with and without the patch','result':verify.get((area,k),'')},
      'checks_run':'tools/try_mutant.sh (git -C /repo apply, ./check <target properties> quick, git checkout) and tools/eval_mutant.sh triage over all 18 checks at scale 0.25',
      'caught_by_quick_checks':cb if cb is not None else 'see final_confirmation',
      'caught_by_target_property_check':(prop in cb) if cb is not None else None}
    json.dump(meta,open(f'{dst}/meta.json','w'),indent=1)
    print(sid,cb)
