#!/bin/sh
# usage: tools/eval_mutant.sh <patch.diff> <target-ID> [scale-for-others]
# Triage helper: evaluates a candidate change WITHOUT touching /repo. A copy of the simulator is
# built against the scratch worktree /tmp/wt-eval (a git worktree of /repo HEAD) with the patch
# applied; the target property's check runs at full quick scale, all others at a reduced scale.
# Final confirmation of kept changes is done with tools/confirm_seeded.sh (git -C /repo apply).
# EVAL_WT / EVAL_DIR select another scratch worktree / build directory (parallel use).
patch="$1"; target="$2"; scale="${3:-0.25}"
WT=${EVAL_WT:-/tmp/wt-eval}; E=${EVAL_DIR:-/tmp/eval}
[ -d $WT ] || git -C /repo worktree add -q $WT HEAD || exit 3
git -C $WT checkout -q --detach $(git -C /repo rev-parse HEAD) 2>/dev/null
git -C $WT checkout -q -- . ; git -C $WT clean -fdq
mkdir -p $E/sim $E/ev
rsync -a --delete --exclude target /verif/sim/ $E/sim/
sed -i "s#path = \"/repo\"#path = \"$WT\"#" $E/sim/Cargo.toml
printf '[net]\noffline = true\n\n[build]\ntarget-dir = "%s/target"\n' $E > $E/sim/.cargo/config.toml
git -C $WT apply "$patch" || { echo "patch does not apply"; exit 3; }
cd $E/sim && cargo build --release --offline >$E/build.log 2>&1 || { echo "BUILD FAILED"; tail -5 $E/build.log; git -C $WT checkout -q -- .; exit 3; }
# the second build (snow as a user's release build), run by the main binary after its own run
cargo build --profile plain --no-default-features --offline >>$E/build.log 2>&1 || echo "(second build failed to compile - skipped)"
caught=""
for id in C01 C02 C03 C04 C05 C06 C07 C08 C09 C10 C11 C12 C14 C15 C16 C17 C19 C20; do
    if [ "$id" = "$target" ]; then sc=1.0; else sc=$scale; fi
    out=$(VERIF_SCALE=$sc VERIF_EVIDENCE_DIR=$E/ev $E/target/release/snowsim check $id quick 2>&1); rc=$?
    if [ "$rc" != "0" ]; then
        echo "== $id (scale $sc) exit=$rc"
        printf '%s\n' "$out" | grep -E '^  class|HARNESS' | head -4 | cut -c1-220
    fi
    [ "$rc" = "1" ] && caught="$caught $id"
done
git -C $WT checkout -q -- .
echo "CAUGHT-BY:$caught"
