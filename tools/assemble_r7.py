#!/usr/bin/env python3
"""Round-7 (theme-based) sub-agent changes -> /verif/seeded/<prop>-r4<group><k>/"""
import os, re, json, shutil
MAP={('J1','A'):'C15',('J1','B'):'C06',('J2','A'):'C17',('J2','B'):'C07',('J3','A'):'C09',('J3','B'):'C15',
     ('J4','A'):'C07',('J4','B'):'C06',('J5','A'):'C01',('J5','B'):'C07',('J6','A'):'C14',('J6','B'):'C14'}
ALSO={('J1','A'):['C20'],('J2','A'):['C07'],('J2','B'):['C02'],('J3','A'):['C15'],('J5','A'):['C02'],('J5','B'):['C17'],('J6','A'):['C04']}
caught={}
if os.path.exists('/tmp/eval_r7.log'):
    cur=None
    for line in open('/tmp/eval_r7.log'):
        m=re.match(r'^#+ (J\d)/([AB])',line)
        if m: cur=(m.group(1),m.group(2)); caught.setdefault(cur,[]); continue
        m=re.match(r'^\s*== (C\d\d) \(scale [0-9.]+\) exit=1\b',line)
        if m and cur and m.group(1) not in caught[cur]: caught[cur].append(m.group(1))
verify={}
for line in open('/tmp/eval_r7.log'):
    m=re.match(r'^RESULT (J\d)/([AB]) (.*)',line)
    if m: verify[(m.group(1),m.group(2))]=m.group(3).strip()
for (area,k),prop in MAP.items():
    src=f'/tmp/mut7-{area}/{k}'
    sid=f'{prop}-r7{area}{k}'
    dst=f'/verif/seeded/{sid}'
    os.makedirs(dst,exist_ok=True)
    for f in ('patch.diff','demo.rs','notes.md'):
        if os.path.exists(f'{src}/{f}'): shutil.copy(f'{src}/{f}',f'{dst}/{f}')
    notes=open(f'{src}/notes.md').read() if os.path.exists(f'{src}/notes.md') else ''
    cb=caught.get((area,k))
    meta={'id':sid,'breaks_property':prop,'also_breaks':ALSO.get((area,k),[]),
      'origin':'independent sub-agent, round 7 (given the property statements and a theme - resolver plumbing and primitive objects, what the session reports about itself, nonce bookkeeping and rekey over unusual histories, history-dependent state, rare patterns and token processing, size boundaries - asked for changes that need something specific to manifest)',
      'base_commit':'f9dd753',
      'files_touched':sorted(set(re.findall(r'^\+\+\+ b/(\S+)',open(f'{src}/patch.diff').read(),re.M))),
      'needs_to_manifest':notes.strip()[:1500],
      'confirmed':{'how':'patch applied in the scratch worktree it was written in; unedited `cargo test --offline` suite; demo run with and without the patch','result':verify.get((area,k),'')},
      'checks_run':'triage in scratch worktrees (simulator built against the patched copy: target property at full quick scale; other checks only in part), then tools/confirm_seeded.sh (git -C /repo apply, ./check <property> quick, git checkout)',
      'caught_by_quick_checks':cb if cb is not None else 'see final_confirmation',
      'caught_by_target_property_check':(prop in cb) if cb is not None else None}
    json.dump(meta,open(f'{dst}/meta.json','w'),indent=1)
    print(sid,cb)
