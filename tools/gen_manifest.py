#!/usr/bin/env python3
"""Regenerates /verif/MANIFEST.json (kept here so that the texts stay in one place)."""
import json, subprocess
desc={
'C01':("exploration","seeded simulation: every snow endpoint is shadowed in lock-step by an independent executable model of Noise rev 34 (refnoise, validated at start-up against 472 third-party vectors); each message snow writes - with the ephemeral its seeded RNG seam handed out during that call - must equal the model's bytes; lengths, encrypted-flag, handshake hash after every message and transport ciphertexts (stateful/stateless, after rekeys, at high nonces) likewise; stratified over 38 patterns x psk sets x 2 DH x 3 ciphers x 4 hashes x backends, name length at HASHLEN boundaries, prologues up to >64 KiB, non-canonical X25519 keys, payloads to the 65535 boundary","5.C01, 12.1"),
'C02':("exploration","seeded simulation of honest snow<->snow sessions (static keys partly from snow's own generate_keypair through the RNG seam, fresh ephemerals, lagging and interleaved transport deliveries, stateful/stateless mix, caller buffers from exact fit to 70000, payload sizes to the 65535 boundary, local failing calls and retries): completion after exactly the pattern's message count, payload equality, equal hashes","5.C02"),
'C03':("exploration","seeded fault injection on handshake deliveries (bit flips / byte sets / field overwrites per field, truncation at field boundaries, extension, multi-edits, substitution from a parallel session with same/different statics, replay, byzantine peer with an off-curve static key), then honest continuation; oracle: model predicts accept/reject of every read and 'never both finished without error'","5.C03, 12.3"),
'C04':("exploration","seeded fault injection on transport deliveries (alteration, reflection, cross-session, cross-direction, wrong nonce, extended maximum-size messages, authentic oversize messages from a non-conforming key holder) against a transport model that decrypts with its own AEAD; accept <=> model accepts, payload equal","5.C04"),
'C05':("exploration","seeded delivery schedules (reorder, loss, duplication, delay, garbage, short buffers, explicit receive nonces incl. resynchronisation backwards) over stateful sessions with a receive-counter model and a fault-free epilogue (bounded liveness); plus two complete grids: all delivery sequences of length 4 over {m0,m1,m2,garbage,set_receiving_nonce} x ciphers x backends x directions, and all sequences of depth 4 over {write, deliver, synchronised rekey, manual rekey, resync back, jump to 2^64-1} with both counters placed at 2^64-3; plus long histories (soak: more than 2^20 rejected deliveries, then more than 2^16 in-order messages, 3 ciphers x 2 backends x stateful/stateless receiver)","5.C05, 12.1, 13.2"),
'C06':("exploration","recording pass-through Cipher injected through the resolver seam builds a (key, nonce) ledger over failing/retried calls, conversion, rekeys and explicit nonces (reserved nonce 2^64-1 always checked); ephemeral freshness checked against the RNG seam's per-call draw log, incl. RNG faults (invalid P-256 scalar); the complete one-failure grid (64 pattern/psk variants x DH x message index x 15 failure causes, retry, run to completion); stock random sources exercised directly (supplementary)","5.C06, 12.1"),
'C07':("exploration","seeded failing calls (every cause, 1-4 per handshake, both sides, retransmission until success) with observables compared before/after (turn, finished, hash, nonces, remote static), shadow-model equality of all later bytes, a control run (same ops with failed calls removed, per-call deterministic RNG) whose wire trace must be identical, the complete one-failure grid (64 pattern/psk variants x DH x message index x 15 failure causes), and long handshake histories (soak-hs: hundreds of failing writes and rejected reads before every genuine message, 10 patterns x 2 backends)","5.C07, 12.1, 13.2"),
'C08':("exploration","configuration faults: peers booted with one differing context item (name component incl. DH function, psk index and modifier order, prologue bit/length incl. tails beyond 65535 bytes, PSK bit, over-long or truncated (zero-tailed) PSK through set_psk, PSK replaced on one side through set_psk, zero-padded spelling of a psk modifier, pre-shared static key incl. masked bit 255); never both finished, no transport message accepted, plus cross-session transport substitution","5.C08"),
'C09':("exploration","nonce model over interleaved successful/failing reads/writes with counters placed at 2^64-3..2^64-1 (hook for the sending side), stateless boundary nonces, manual/automatic rekeys at the boundary (complete depth-4 grid at 2^64-3), recording cipher proving 2^64-1 is only used by rekey; long histories (soak) in which the counters pass 255/256 and 65535/65536 by counting","5.C09, 13.2"),
'C10':("exploration","chaos driver + panic monitor (catch_unwind at every call) over all session states with adversarial buffers (incl. 1-15 bytes of slack), messages, keys of length 0..200, invalid P-256 scalars, unbuildable names, PSK arguments; the complete boundary sweep (every buffer / message length within +-2 of every field boundary for 64 pattern/psk variants x DH x message index, and around the tag in both transport modes); watchdog for non-termination (60 s per run); name strings by plain seeded generation plus a complete list of multi-psk names with an out-of-range index at every list position - whatever parses is also built in both roles; snow is compiled with overflow checks and debug assertions; positional resolver denial (only the k-th request refused); long handshake histories (soak-hs) and long transport histories with 2^16 rekeys (soak); Debug of every state object and Display of every returned error rendered under the monitor; set_psk positions / key lengths beyond a byte; generate_keypair under resolver faults","5.C10, 12.2c"),
'C11':("exploration","random call sequences (out-of-turn, after-finish, early conversion, one-way misuse) against a 10-line state-machine model, pinned state-error variants for single-cause calls, indicators compared after every call, later divergence after a misuse attributed; plus the complete set of call sequences of depth 4 (quick) / 6 (thorough) over six calls for six patterns","5.C11, 12.1"),
'C12':("fault_enumeration","boot half enumerated completely (38 patterns x role x key subsets x psk modifier 0..9 / multi (incl. an out-of-range index at every list position) / fallback / unbuildable spellings x denied primitive, entirely or at the k-th request) against requirements derived from the pattern text; run-time half sampled (withheld PSKs must fail at the message that needs them - also after a refused set_psk and with PSKs sitting in slots the name does not use - then succeed after set_psk; shuffled modifier order; builder calls in every order; a well-formed late set_psk must be taken; single-cause boots must name their cause)","5.C12, 12.2c"),
'C14':("exploration","field-map length prediction from the model for every write/read, buffers placed at every field boundary; plus the complete grid pattern x DH x message index x payload {max-1..max+17} x 7 buffer sizes, repeated in both transport modes with extended/truncated/forged oversize copies","5.C14, 12.1"),
'C15':("exploration","random sequences of writes, deliveries and unilateral/synchronised/manual rekeys (incl. repeated, at nonce boundaries, both directions in one call); model applies the spec's REKEY to its own keys: byte-for-byte ciphertext equality and accept <=> keys equal; manual key values incl. all-zero, all-0xFF, one key for both directions, the other direction's key; rekey_manually(None, None); more than 2^16 rekeys in step (soak); plus the complete depth-4 grid over {write, deliver, rekey outgoing, rekey incoming, manual key on either side}","5.C15, 12.2c"),
'C16':("exploration","logical clients interleaved on shared stateless sessions (any order, repetition, boundary nonces, tight buffers, rejected reads in between) against model AEAD; real threads under shuttle (random + PCT schedulers); thorough adds Miri (preemptive seeded scheduling, data-race detection); supplementary OS-thread stress (uncontrolled scheduler): spin-rendezvous threads doing concurrent writes on one end and reads of distinct genuine messages on the other (exact-fit, slack, ample buffers) right after key changes, 3 ciphers x backends; long histories (soak: more than 2^18 / 2^20 messages per key and direction, stateful vs stateless twin)","5.C16, 12.1, 12.2c"),
'C17':("exploration","monitor: after every call and after both conversions get_remote_static() must equal the model's knowledge of the peer key (32- and 65-byte keys, pinned superfluous keys, byzantine keys); after a failed read it must equal its value before the call","5.C17, 12.1"),
'C19':("exploration","after every read rejected for authentication the pre-filled output buffer is searched for the genuine payload plaintext (aligned windows tolerant to a few altered bytes) and for the sender's static key; seeded runs plus the complete grid cipher x backend x read path x alteration x payload buffer (exact, +1, +15, message size, ample) x payload length 16..40000","5.C19"),
'C20':("exploration","twin universes: the same seeded run re-executed under 5 backend assignments must give identical wire bytes and Ok/Err results; fallback table enumerated completely with tagged stub resolvers (availability per kind and per choice, query order); rekey sequences (complete depth-4 grid) in twin universes","5.C20"),
}
tech={
'C01':"deterministic simulation vs executable reference model (shadow lockstep)",
'C02':"deterministic simulation of honest sessions with seeded delivery schedules",
'C03':"deterministic simulation with network fault injection (alteration/substitution/byzantine peer)",
'C04':"deterministic simulation with network fault injection vs transport model",
'C05':"deterministic simulation: seeded + enumerated delivery schedules, fault-free epilogue",
'C06':"deterministic simulation with recording crypto seam ((key,nonce) ledger) and RNG seam",
'C07':"deterministic simulation with injected failing calls + control-run comparison",
'C08':"deterministic simulation with configuration faults between peers",
'C09':"deterministic simulation with nonce placement (hook) and recording cipher",
'C10':"deterministic simulation chaos driver with panic/hang monitor",
'C11':"deterministic simulation of API misuse (seeded + enumerated call sequences) vs state-machine model",
'C12':"complete enumeration of boot-time configuration faults + seeded run-time sessions",
'C14':"deterministic simulation with buffer-size faults vs field-map model (seeded + boundary grid)",
'C15':"deterministic simulation of rekey interleavings vs reference REKEY",
'C16':"deterministic simulation of logical clients + shuttle thread schedules (+ Miri in thorough)",
'C17':"deterministic simulation monitor over handshake histories",
'C19':"deterministic simulation with alteration faults + output-buffer inspection",
'C20':"twin-universe deterministic simulation across crypto backends + exhaustive fallback table",
}
checks=[]
for pid,(lvl,text,ref) in desc.items():
    checks.append({
      "property_id":pid,
      "quick_cmd":f"./check {pid} quick",
      "thorough_cmd":f"./check {pid} thorough",
      "evidence_file":f"/verif/evidence/{pid}.json",
      "replay_cmd_template":"./check --replay {path}",
      "engine":"snowsim",
      "level_claimed":{"category":lvl,"text":text,"design_ref":"DESIGN.md section "+ref},
      "level_note":"trusted base: refnoise model (self-validated against the cacophony vectors in every run), RustCrypto hmac/hkdf/chacha20poly1305/aes-gcm + x25519-dalek + p256 as primitive oracles, the harness itself; seeded search samples - a clean batch is evidence over the explored runs, not a proof; negligible-probability cryptographic events are ignored",
      "technique":tech[pid],
    })
hooks=subprocess.run(['git','-C','/repo','log','--format=%h','--grep=^verif hook'],capture_output=True,text=True).stdout.split()
m={
 "version":1,
 "setup_cmd":"cd /verif/sim && CARGO_NET_OFFLINE=true cargo build --release --offline && CARGO_NET_OFFLINE=true cargo build --profile plain --no-default-features --offline",
 "hooks":{
   "guard":"cargo feature verif-hooks",
   "enable":"snowsim's default cargo feature `hooks` = [\"snow/verif-hooks\"] (next to `rawsplit` = [\"snow/risky-raw-split\"]) on top of snow = { path = \"/repo\", features = [\"ring-resolver\", \"use-p256\", \"use-xchacha20poly1305\"] }, with overflow-checks and debug-assertions switched on for the snow package; a second build (cargo profile plain, --no-default-features) compiles snow without verif-hooks / risky-raw-split and without debug assertions / overflow checks, i.e. as a user's release build, and every check re-runs at a quarter of its scale on it",
   "baseline_off_cmd":"cd /repo && cargo test --workspace --no-fail-fast --offline",
   "source_commits":hooks,
   "add_only":True
 },
 "engines":[{"name":"snowsim","path":"/verif/sim","serves_properties":list(desc.keys()),"kind_free_text":"deterministic simulator (seeded PRNG scheduler, in-memory link, RNG/resolver seams, shadow reference model, fault injection, minimising replay) around the real snow crate; /verif/sim-miri is its Miri layer for C16 thorough"}],
 "checks":checks,
 "notes":"Exit codes: 0 held (KNOWN-FINDING lines allowed), 1 VIOLATION, 2 harness error. VERIF_SEED (default 1) decides every run. known_findings.json lists genuine defects (fixed and open). /verif/seeded holds confirmed property-breaking changes from blind sub-agents used to test the checks (DESIGN.md section 13); /verif/redteam holds those of a white-box review (section 12.2c). Every check also runs a small slice of every seeded scenario that is not one of its own (x-<scenario>) and reports only violations of its own property.",
 "not_applicable":[
   {"property_id":"C13","reason":"protocol-name parsing is a pure function of one string: no schedule, peer, fault, retry or shared state for a simulator to control; deciding it would be grammar-based input generation, not this technique"},
   {"property_id":"C18","reason":"HMAC/HKDF/AEAD/DH wrappers are pure, stateless, single-party functions of (key, nonce, ad, data); nothing to schedule or fault (only incidentally reached through sessions in C01/C15/C16/C20)"}
 ]
}
json.dump(m,open('/verif/MANIFEST.json','w'),indent=1)
print("hooks:",hooks)
