#!/bin/sh
# usage: tools/try_mutant.sh <patch.diff> [ID ...]   (default: all claimed properties)
# Applies the patch to /repo, runs the quick checks, prints which ones raise a VIOLATION, and
# always restores /repo afterwards. Never commits anything in /repo.
patch="$1"; shift
ids="$*"
[ -z "$ids" ] && ids="C01 C02 C03 C04 C05 C06 C07 C08 C09 C10 C11 C12 C14 C15 C16 C17 C19 C20"
cd /repo || exit 3
if [ -n "$(git status --porcelain --untracked-files=no)" ]; then echo "/repo is not clean" >&2; exit 3; fi
git apply "$patch" || { echo "patch does not apply" >&2; exit 3; }
trap 'git -C /repo checkout -- . ; rm -rf /verif/replays/*' EXIT INT TERM
cd /verif
export VERIF_EVIDENCE_DIR=/tmp/mut-evidence
caught=""
for id in $ids; do
    out=$(./check "$id" quick 2>&1); rc=$?
    n=$(printf '%s\n' "$out" | grep -c '^VIOLATION')
    cls=$(printf '%s\n' "$out" | grep '^  class' | head -3 | cut -c1-200)
    echo "== $id exit=$rc violations=$n"
    [ -n "$cls" ] && echo "$cls"
    [ "$rc" = "2" ] && printf '%s\n' "$out" | grep -i "harness\|error" | head -5
    [ "$rc" = "1" ] && caught="$caught $id"
done
echo "CAUGHT-BY:$caught"
