#!/usr/bin/env python3
"""Round-3 (area-based) sub-agent changes -> /verif/seeded/<prop>-r3<area><k>/"""
import os, re, json, shutil
MAP={('NA','M1'):'C17',('NA','M2'):'C08',('NA','M3'):'C07',('NB','M1'):'C15',('NB','M2'):'C14',('NB','M3'):'C05',
     ('NC','M1'):'C06',('NC','M2'):'C01',('NC','M3'):'C20',('ND','M1'):'C01',('ND','M2'):'C08',('ND','M3'):'C08'}
ALSO={('NA','M1'):['C07'],('NA','M2'):['C01'],('NA','M3'):['C02'],('NB','M3'):['C09'],('ND','M1'):['C08'],('ND','M2'):['C01'],('ND','M3'):['C01']}
caught={}
if os.path.exists('/tmp/eval_r3.log'):
    cur=None
    for line in open('/tmp/eval_r3.log'):
        m=re.match(r'^#+ (N[A-D])/(M\d)',line)
        if m: cur=(m.group(1),m.group(2)); continue
        if line.startswith('####'): cur=None; continue
        m=re.match(r'^CAUGHT-BY:(.*)',line)
        if m and cur: caught[cur]=m.group(1).split()
verify={}
for line in open('/tmp/verify_round3.log'):
    m=re.match(r'^RESULT (N[A-D])/(M\d) (.*)',line)
    if m: verify[(m.group(1),m.group(2))]=m.group(3).strip()
for (area,k),prop in MAP.items():
    src=f'/tmp/mut3-{area}/{k}'
    sid=f'{prop}-r3{area}{k}'
    dst=f'/verif/seeded/{sid}'
    os.makedirs(dst,exist_ok=True)
    for f in ('patch.diff','demo.rs','notes.md'):
        if os.path.exists(f'{src}/{f}'): shutil.copy(f'{src}/{f}',f'{dst}/{f}')
    notes=open(f'{src}/notes.md').read() if os.path.exists(f'{src}/notes.md') else ''
    cb=caught.get((area,k))
    meta={'id':sid,'breaks_property':prop,'also_breaks':ALSO.get((area,k),[]),
      'origin':'independent sub-agent, round 3 (given the property statements and a source area, asked for changes that are hard for a randomized simulation harness)',
      'base_commit':'f9dd753',
      'files_touched':sorted(set(re.findall(r'^\+\+\+ b/(\S+)',open(f'{src}/patch.diff').read(),re.M))),
      'needs_to_manifest':notes.strip()[:1500],
      'confirmed':{'how':'tools/verify_mutant.sh: patch applied in a scratch worktree; unedited `cargo test --offline` suite; demo run with and without the patch','result':verify.get((area,k),'')},
      'checks_run':'tools/try_mutant.sh (git -C /repo apply, ./check <target properties> quick, git checkout) and tools/eval_mutant.sh triage over all 18 checks at scale 0.25',
      'caught_by_quick_checks':cb if cb is not None else 'see final_confirmation',
      'caught_by_target_property_check':(prop in cb) if cb is not None else None}
    json.dump(meta,open(f'{dst}/meta.json','w'),indent=1)
    print(sid,cb)
