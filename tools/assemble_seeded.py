#!/usr/bin/env python3
"""Assemble /verif/seeded/<id>/ from sub-agent outputs (/tmp/mut*-Cxx/{A,B}) and evaluation logs.
usage: assemble_seeded.py <round> <mutdir-prefix> <evallog>...   e.g. 1 /tmp/mut- /tmp/eval_batch1.log ...
"""
import sys, os, re, json, shutil, subprocess
rnd, prefix, logs = sys.argv[1], sys.argv[2], sys.argv[3:]
caught = {}
for lg in logs:
    cur = None
    for line in open(lg):
        m = re.match(r'^#+ (C\d\d|N[A-D])/([AB]|M\d)', line)
        if m: cur = (m.group(1), m.group(2)); continue
        if line.startswith('####'): cur = None; continue
        m = re.match(r'^CAUGHT-BY:(.*)', line)
        if m and cur: caught[cur] = m.group(1).split()
verify = {}
if os.path.exists(f'/tmp/verify_round{rnd}.log'):
    for line in open(f'/tmp/verify_round{rnd}.log'):
        m = re.match(r'^RESULT (C\d\d)/([AB]) (.*)', line)
        if m: verify[(m.group(1), m.group(2))] = m.group(3).strip()
base = {'1':'faac9b3','2':'589916b'}.get(rnd, subprocess.run(['git','-C','/repo','rev-parse','--short','HEAD'],capture_output=True,text=True).stdout.strip())
for pid in sorted({k[0] for k in caught} | {d[len(prefix):] for d in [x for x in map(lambda n: prefix+n, [])]}):
    pass
props = sorted(set(p for p,_ in caught) | set(d.replace(os.path.basename(prefix),'') for d in os.listdir(os.path.dirname(prefix)) if d.startswith(os.path.basename(prefix)) and re.match(r'^C\d\d$', d.replace(os.path.basename(prefix),''))))
for pid in props:
    for x in 'AB':
        src = f'{prefix}{pid}/{x}'
        if not os.path.exists(src + '/patch.diff'): continue
        sid = f'{pid}-r{rnd}{x}'
        dst = f'/verif/seeded/{sid}'
        os.makedirs(dst, exist_ok=True)
        for f in ('patch.diff','demo.rs','notes.md'):
            if os.path.exists(f'{src}/{f}'): shutil.copy(f'{src}/{f}', f'{dst}/{f}')
        notes = open(f'{src}/notes.md').read() if os.path.exists(f'{src}/notes.md') else ''
        needs = ''
        m = re.search(r'(?is)(what .{0,40}need[^\n]*\n)(.*?)(\n#|\Z)', notes)
        if m: needs = (m.group(2).strip())[:1200]
        else: needs = notes.strip()[:800]
        cb = caught.get((pid,x))
        meta = {
            'id': sid,
            'breaks_property': pid,
            'origin': f'independent sub-agent, round {rnd} (given only the property text and a scratch worktree)',
            'base_commit': base,
            'files_touched': sorted(set(re.findall(r'^\+\+\+ b/(\S+)', open(f'{src}/patch.diff').read(), re.M))),
            'needs_to_manifest': needs,
            'confirmed': {
                'how': 'tools/verify_mutant.sh: patch applied in a scratch worktree; unedited `cargo test --offline` suite; demo copied to tests/ and run with and without the patch',
                'result': verify.get((pid,x), 'see DESIGN.md section 13'),
            },
            'checks_run': 'tools/eval_mutant.sh (simulator built against a scratch worktree with the patch; target property at full quick scale, all others at 0.25) and, for target misses, tools/try_mutant.sh (git -C /repo apply, ./check <ID> quick, git checkout)',
            'caught_by_quick_checks': cb if cb is not None else 'not evaluated',
            'caught_by_target_property_check': (pid in cb) if cb is not None else None,
        }
        json.dump(meta, open(f'{dst}/meta.json','w'), indent=1)
        print(sid, cb)
