#!/usr/bin/env python3
"""Print the markdown table of DESIGN.md section 13 from /verif/seeded/*/meta.json."""
import json, glob, os
rows=[]
for f in sorted(glob.glob('/verif/seeded/*/meta.json')):
    m=json.load(open(f))
    cb=m.get('caught_by_quick_checks')
    final=m.get('final_confirmation',{})
    rows.append((m['id'], m['breaks_property'], ', '.join(m.get('files_touched',[])).replace('src/',''), ' '.join(cb) if isinstance(cb,list) else str(cb), final.get('target_check','-'), m.get('note','')))
print('| seeded change | property | touches | caught by quick checks (triage run) | target check on /repo | note |')
print('|---|---|---|---|---|---|')
for r in rows: print('| '+' | '.join(r)+' |')
