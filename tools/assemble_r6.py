#!/usr/bin/env python3
"""Round-6 (theme-based) sub-agent changes -> /verif/seeded/<prop>-r4<group><k>/"""
import os, re, json, shutil
MAP={('I1','A'):'C07',('I1','B'):'C17',('I2','A'):'C14',('I2','B'):'C14',('I3','A'):'C07',('I3','B'):'C12',
     ('I4','A'):'C07',('I4','B'):'C07',('I5','A'):'C17',('I5','B'):'C11',('I6','A'):'C15',('I6','B'):'C01'}
ALSO={('I1','A'):['C02'],('I2','A'):['C02','C01'],('I2','B'):['C02'],('I3','A'):['C02','C11'],('I4','A'):['C12','C02'],('I4','B'):['C02'],('I6','A'):['C20','C01']}
caught={}
if os.path.exists('/tmp/eval_r6.log'):
    cur=None
    for line in open('/tmp/eval_r6.log'):
        m=re.match(r'^#+ (I\d)/([AB])',line)
        if m: cur=(m.group(1),m.group(2)); continue
        if line.startswith('####'): cur=None; continue
        m=re.match(r'^CAUGHT-BY:(.*)',line)
        if m and cur: caught[cur]=m.group(1).split()
verify={}
for line in open('/tmp/verify_round6.log'):
    m=re.match(r'^RESULT (I\d)/([AB]) (.*)',line)
    if m: verify[(m.group(1),m.group(2))]=m.group(3).strip()
for (area,k),prop in MAP.items():
    src=f'/tmp/mut6-{area}/{k}'
    sid=f'{prop}-r6{area}{k}'
    dst=f'/verif/seeded/{sid}'
    os.makedirs(dst,exist_ok=True)
    for f in ('patch.diff','demo.rs','notes.md'):
        if os.path.exists(f'{src}/{f}'): shutil.copy(f'{src}/{f}',f'{dst}/{f}')
    notes=open(f'{src}/notes.md').read() if os.path.exists(f'{src}/notes.md') else ''
    cb=caught.get((area,k))
    meta={'id':sid,'breaks_property':prop,'also_breaks':ALSO.get((area,k),[]),
      'origin':'independent sub-agent, round 6 (given the property statements and a theme - role/pattern asymmetry, length arithmetic, psk modifiers, write-side failure handling, the two transport modes and conversion, primitive-specific code - asked for changes that need something specific to manifest)',
      'base_commit':'f9dd753',
      'files_touched':sorted(set(re.findall(r'^\+\+\+ b/(\S+)',open(f'{src}/patch.diff').read(),re.M))),
      'needs_to_manifest':notes.strip()[:1500],
      'confirmed':{'how':'tools/verify_mutant.sh: patch applied in a scratch worktree; unedited `cargo test --offline` suite; demo run with and without the patch','result':verify.get((area,k),'')},
      'checks_run':'tools/try_mutant.sh (git -C /repo apply, ./check <target properties> quick, git checkout) and tools/eval_mutant.sh triage over all 18 checks at scale 0.25',
      'caught_by_quick_checks':cb if cb is not None else 'see final_confirmation',
      'caught_by_target_property_check':(prop in cb) if cb is not None else None}
    json.dump(meta,open(f'{dst}/meta.json','w'),indent=1)
    print(sid,cb)
