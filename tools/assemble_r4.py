#!/usr/bin/env python3
"""Round-4 (theme-based) sub-agent changes -> /verif/seeded/<prop>-r4<group><k>/"""
import os, re, json, shutil
MAP={('G1','A'):'C02',('G1','B'):'C02',('G2','A'):'C03',('G2','B'):'C19',('G3','A'):'C05',('G3','B'):'C15',
     ('G4','A'):'C07',('G4','B'):'C17',('G5','A'):'C08',('G5','B'):'C08',('G6','A'):'C10',('G6','B'):'C11'}
ALSO={('G1','A'):['C01'],('G1','B'):['C01'],('G3','A'):['C09'],('G4','B'):['C07'],('G6','A'):['C16']}
caught={}
if os.path.exists('/tmp/eval_r4.log'):
    cur=None
    for line in open('/tmp/eval_r4.log'):
        m=re.match(r'^#+ (G\d)/([AB])',line)
        if m: cur=(m.group(1),m.group(2)); continue
        if line.startswith('####'): cur=None; continue
        m=re.match(r'^CAUGHT-BY:(.*)',line)
        if m and cur: caught[cur]=m.group(1).split()
verify={}
for line in open('/tmp/verify_round4.log'):
    m=re.match(r'^RESULT (G\d)/([AB]) (.*)',line)
    if m: verify[(m.group(1),m.group(2))]=m.group(3).strip()
for (area,k),prop in MAP.items():
    src=f'/tmp/mut4-{area}/{k}'
    sid=f'{prop}-r4{area}{k}'
    dst=f'/verif/seeded/{sid}'
    os.makedirs(dst,exist_ok=True)
    for f in ('patch.diff','demo.rs','notes.md'):
        if os.path.exists(f'{src}/{f}'): shutil.copy(f'{src}/{f}',f'{dst}/{f}')
    notes=open(f'{src}/notes.md').read() if os.path.exists(f'{src}/notes.md') else ''
    cb=caught.get((area,k))
    meta={'id':sid,'breaks_property':prop,'also_breaks':ALSO.get((area,k),[]),
      'origin':'independent sub-agent, round 4 (given the property statements and a theme - key-material coincidences, long histories, special values, rarely used API entry points - asked for changes that need something specific to manifest)',
      'base_commit':'f9dd753',
      'files_touched':sorted(set(re.findall(r'^\+\+\+ b/(\S+)',open(f'{src}/patch.diff').read(),re.M))),
      'needs_to_manifest':notes.strip()[:1500],
      'confirmed':{'how':'tools/verify_mutant.sh: patch applied in a scratch worktree; unedited `cargo test --offline` suite; demo run with and without the patch','result':verify.get((area,k),'')},
      'checks_run':'tools/try_mutant.sh (git -C /repo apply, ./check <target properties> quick, git checkout) and tools/eval_mutant.sh triage over all 18 checks at scale 0.25',
      'caught_by_quick_checks':cb if cb is not None else 'see final_confirmation',
      'caught_by_target_property_check':(prop in cb) if cb is not None else None}
    json.dump(meta,open(f'{dst}/meta.json','w'),indent=1)
    print(sid,cb)
