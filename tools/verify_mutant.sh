#!/bin/sh
# usage: tools/verify_mutant.sh <ID> <X>    e.g. C05 A
# Confirms for /tmp/mut-<ID>/<X>: patch applies on a clean scratch worktree, the unedited test
# suite passes with it, the demonstration fails with it and passes without it.
ID=$1; X=$2; WT=/tmp/wt-$ID; M=/tmp/mut-$ID/$X
FEAT="--features use-p256,use-xchacha20poly1305,ring-resolver,verif-hooks"
cd $WT || exit 3
git checkout -q -- . ; rm -f tests/demo_*.rs
git apply $M/patch.diff || { echo "RESULT $ID/$X patch-does-not-apply"; exit 1; }
suite=$(cargo test --offline 2>&1 | grep -E "^test result" | awk '{p+=$4; f+=$6} END {print p" passed "f" failed"}')
cp $M/demo.rs tests/demo_$X.rs
with=$(cargo test --offline $FEAT --test demo_$X 2>&1 | grep -E "^test result|error(\[|:)" | head -2 | tr '\n' ' ')
git apply -R $M/patch.diff
without=$(cargo test --offline $FEAT --test demo_$X 2>&1 | grep -E "^test result|error(\[|:)" | head -2 | tr '\n' ' ')
rm -f tests/demo_$X.rs; git checkout -q -- .
echo "RESULT $ID/$X suite-with-change: $suite | demo-with: $with | demo-without: $without"
