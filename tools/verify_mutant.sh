#!/bin/sh
# usage: tools/verify_mutant.sh <dir-with-patch.diff-and-demo.rs> <label>     e.g. /tmp/mut-C05/A C05/A
# Confirms in the scratch worktree /tmp/wt-verify (created from /repo HEAD if absent): the patch
# applies, the unedited test suite passes with it, the demonstration fails with it and passes
# without it. Prints one RESULT line.
M=$1; L=$2; WT=/tmp/wt-verify
FEAT="--features use-p256,use-xchacha20poly1305,ring-resolver,verif-hooks"
[ -d $WT ] || git -C /repo worktree add -q $WT HEAD || exit 3
cd $WT || exit 3
git checkout -q -- . ; rm -f tests/demo_*.rs
git apply $M/patch.diff || { echo "RESULT $L patch-does-not-apply"; exit 1; }
suite=$(cargo test --offline 2>&1 | grep -E "^test result" | awk '{p+=$4; f+=$6} END {print p" passed "f" failed"}')
cp $M/demo.rs tests/demo_X.rs
with=$(cargo test --offline $FEAT --test demo_X 2>&1 | grep -E "^test result|error(\[|:)" | head -1)
git apply -R $M/patch.diff
without=$(cargo test --offline $FEAT --test demo_X 2>&1 | grep -E "^test result|error(\[|:)" | head -1)
rm -f tests/demo_X.rs; git checkout -q -- .
echo "RESULT $L suite-with-change: $suite | demo-with-change: $with | demo-without: $without"
