#!/bin/bash
# usage: tools/confirm_seeded.sh [id ...]   (default: all of /verif/seeded)
# Final confirmation as the brief describes: git -C /repo apply <patch>, run the target property's
# quick check, git -C /repo checkout -- . ; the outcome is recorded in meta.json.
cd /verif || exit 3
S=${SEEDED_DIR:-/verif/seeded}
ids="$*"; [ -z "$ids" ] && ids=$(ls $S)
export VERIF_EVIDENCE_DIR=/tmp/confirm-evidence
for id in $ids; do
  d=$S/$id; prop=$(python3 -c "import json;print(json.load(open('$d/meta.json'))['breaks_property'])")
  if [ -n "$(git -C /repo status --porcelain --untracked-files=no)" ]; then echo "/repo not clean"; exit 3; fi
  patch=$d/patch.diff
  if ! git -C /repo apply --check $patch 2>/dev/null; then
     alt=$(ls $d/patch-ported-*.diff 2>/dev/null | head -1)
     [ -n "$alt" ] && patch=$alt
  fi
  if ! git -C /repo apply --check $patch 2>/dev/null; then
     res="patch does not apply on current HEAD (made against its base_commit)"; classes=""
  else
     git -C /repo apply $patch
     out=$(./check $prop quick 2>&1); rc=$?
     git -C /repo checkout -- .
     classes=$(printf '%s\n' "$out" | grep '^  class' | head -3 | cut -c1-260)
     if [ "$rc" = "1" ]; then res="caught (exit 1, VIOLATION)"; elif [ "$rc" = "0" ]; then res="missed (exit 0)"; else res="harness error (exit $rc)"; fi
  fi
  echo "$id [$prop]: $res"
  python3 - "$d/meta.json" "$res" "$classes" "${VERIF_SCALE:-1.0}" <<'PY'
import json,sys
p,res,classes,scale=sys.argv[1],sys.argv[2],sys.argv[3],sys.argv[4]
m=json.load(open(p))
m['final_confirmation']={'how':'git -C /repo apply patch.diff; ./check <property> quick'+('' if scale=='1.0' else ' (VERIF_SCALE=%s)'%scale)+'; git -C /repo checkout -- .','target_check':res,'violation_classes':[c.strip() for c in classes.split('\n') if c.strip()]}
json.dump(m,open(p,'w'),indent=1)
PY
done
rm -rf /verif/replays/*
cd /verif/sim && cargo build --release --offline >/dev/null 2>&1
echo "done; simulator rebuilt against the clean tree"
